"""Plain reproduction of the defects F1..F21 (DESIGN.md section 5) against a tree.

Usage: /venv/bin/python notes/repro_defects.py [repo_root]     (default /repo)
Prints one line per defect: `Fxx DEFECT <what>` or `Fxx ok`.
No explorer involved: each is the shortest witness found by the corresponding check.
"""
import sys, os, io, warnings, logging

root = sys.argv[1] if len(sys.argv) > 1 else os.environ.get("VERIF_REPO", "/repo")
sys.path.insert(0, root)
logging.disable(logging.CRITICAL)
warnings.simplefilter("ignore")
import bibtexparser
from bibtexparser.splitter import Splitter
from bibtexparser.library import Library
from bibtexparser.model import Entry, Field, String
from bibtexparser import middlewares as mw
from bibtexparser.middlewares.names import split_multiple_persons_names, parse_single_name_into_parts

assert os.path.realpath(bibtexparser.__file__).startswith(os.path.realpath(root)), bibtexparser.__file__


def report(fid, bad, what):
    print(f"{fid} {'DEFECT ' + what if bad else 'ok'}")


def tiles(text):
    lib = Splitter(text).split()
    cur = 0
    for b in lib.blocks:
        while cur < len(text) and text[cur].isspace():
            cur += 1
        if not text.startswith(b.raw, cur):
            return False, [b.raw for b in lib.blocks]
        if b.start_line != text.count("\n", 0, cur):
            return False, [(b.raw, b.start_line) for b in lib.blocks]
        cur += len(b.raw)
    return text[cur:].strip() == "", [b.raw for b in lib.blocks]


# F1
try:
    bibtexparser.parse_string("a\n" * 2000)
    report("F1", False, "")
except RecursionError:
    report("F1", True, "RecursionError on 2000 lines")

for fid, text in [
    ("F2", "@a{k, t = {b@c{d}}}"),
    ("F2b", "@comment{@a{}"),
    ("F3", "@a{k @b{x}"),
    ("F4", "@a{k, a b, c = d}"),
    ("F5", "% x\\\n@a{k}"),
]:
    ok, raws = tiles(text)
    report(fid, not ok, f"{text!r} -> {raws!r}")

# F6
lib = bibtexparser.parse_string('@a{k, t = "a{"}b"}', parse_stack=[])
bad = not (len(lib.blocks) == 1 and isinstance(lib.blocks[0], Entry) and lib.blocks[0].fields[0].value == '"a{"}b"')
report("F6", bad, repr([getattr(b, "raw", None) for b in lib.blocks]))

# F7
fmt = bibtexparser.BibtexFormat()
fmt.parsing_failed_comment = "% failed ({n} lines)"
lib = bibtexparser.parse_string("@a{k, x\n")
out = bibtexparser.write_string(lib, bibtex_format=fmt)
report("F7", "% failed (" not in out, repr(out))

# F8
m = mw.SortFieldsCustomMiddleware(order=("b", "a"), allow_inplace_modification=False)
lib0 = bibtexparser.parse_string("@a{k, a = {1}, b = {2}}")
l1 = m.transform(lib0)
l2 = m.transform(l1)
k = m.metadata_key()
report("F8", l1.entries[0].parser_metadata[k] is l2.entries[0].parser_metadata[k], "metadata list shared")

# F10
lib = Library()
e1 = Entry("article", "a", [])
e2 = Entry("article", "b", [])
lib.add(e1)
try:
    lib.remove([e1, e2])
except ValueError:
    pass
report("F10", len(lib.blocks) != 1, "remove([held, absent]) removed held then raised")

# F11
lib = bibtexparser.parse_string('@string{a = "}')
s = lib.strings[0] if lib.strings else None
back = bibtexparser.write_string(lib, unparse_stack=[mw.AddEnclosingMiddleware(True, True, "{", allow_inplace_modification=False)])
report("F11", s is None or s.value != '"', f"value={getattr(s,'value',None)!r} restored={back!r}")

# F12
e = Entry("article", "k", [Field("year", 1990)])
try:
    mw.AddEnclosingMiddleware(False, False, "{").transform(Library([e]))
    report("F12", False, "")
except AttributeError as ex:
    report("F12", True, f"AttributeError {ex}")

# F13
r1 = split_multiple_persons_names("A B and \\'Etienne C")
r2 = split_multiple_persons_names("x a\\xnd y")
report("F13", r1 != ["A B", "\\'Etienne C"] or r2 != ["x a\\xnd y"], f"{r1!r} {r2!r}")

# F14
p = parse_single_name_into_parts("AA bb CC dd")
report("F14", (p.first, p.von, p.last) != (["AA"], ["bb"], ["CC", "dd"]), repr(p))

# F15
e = Entry("article", "k", [Field("month", 13)])
mw.MonthAbbreviationMiddleware().transform(Library([e]))
report("F15", e.fields[0].value is e.fields[0], "field.value is the field itself")

# F16
bad = []
for v in ["²", "9" * 5000]:
    for M in (mw.MonthIntMiddleware, mw.MonthAbbreviationMiddleware, mw.MonthLongStringMiddleware):
        try:
            M().transform(Library([Entry("article", "k", [Field("month", v)])]))
        except ValueError:
            bad.append((v[:3], M.__name__))
report("F16", bool(bad), repr(bad))

# F17
lib = Library([String("a", "é")])
out = mw.LatexEncodingMiddleware().transform(lib)
report("F17", not isinstance(out.blocks[0].value, str), repr(out.blocks[0].value))

# F20
class Tag(mw.BlockMiddleware):
    def transform_entry(self, entry, library):
        entry.key = entry.key + "!"
        return entry

lib = bibtexparser.parse_string("@a{k, a = {1}}", append_middleware=iter([Tag()]))
report("F20", lib.entries[0].key != "k!", f"key={lib.entries[0].key!r}")

# F21
enc = mw.LatexEncodingMiddleware()
e = Entry("article", "k", [Field("t", "$x+y$&$a_1$")])
out = enc.transform(Library([e]))
v = out.blocks[0].fields[0].value if hasattr(out.blocks[0], "fields") else None
report("F21", v is None or "\\&" not in v, repr(v))
