#!/bin/sh
# tools/retest_wave.sh PATTERN [extra check ids]: re-run the quick check of each seeded change's own property
# (plus the extra ones) against a scratch worktree with the change applied; one line per seed.
PAT=$1; shift
cd /verif || exit 2
for d in seeded/*${PAT}*; do
  id=$(basename "$d"); prop=${id%%-*}
  res=$(SHOW=2 sh tools/try_patch.sh "/verif/$d/patch.diff" quick $prop "$@" 2>&1 | grep -E '^== |DOES NOT APPLY|HARNESS' | tr '\n' ' ')
  echo "$id $res"
done
