#!/usr/bin/env python3
"""For one seeded change per property: run the property's quick check against the changed tree, take the first replay file,
replay it against the changed tree (must reproduce: exit 1) and against /repo (must not: exit 0)."""
import glob, json, os, subprocess, sys

def sh(cmd, env=None, timeout=2400):
    e = dict(os.environ); e.update(env or {})
    return subprocess.run(cmd, shell=True, capture_output=True, text=True, env=e, timeout=timeout)

results = []
for i in range(1, 21):
    pid = "C%02d" % i
    seed = f"/verif/seeded/{pid}-m1" if pid not in ("C15",) else f"/verif/seeded/{pid}-m1"
    W = f"/var/tmp/replaysmoke.{pid}"
    sh(f"git -C /repo worktree remove --force {W}")
    base = json.load(open(seed + "/meta.json")).get("repo_head", "HEAD").split()[0]
    sh(f"git -C /repo worktree add --detach -q {W} HEAD")
    if sh(f"git -C {W} apply {seed}/patch.diff").returncode != 0:
        sh(f"git -C /repo worktree remove --force {W}"); sh(f"git -C /repo worktree add --detach -q {W} {base}"); sh(f"git -C {W} apply {seed}/patch.diff")
    try:
        r = sh(f"cd /verif && timeout 1500 ./check {pid} --tier quick", {"VERIF_REPO": W})
        files = [l.split("replay=")[1].strip() for l in r.stdout.splitlines() if l.startswith("VIOLATION")]
        if not files:
            results.append((pid, "NO VIOLATION", r.returncode)); continue
        f = files[0]
        a = sh(f"cd /verif && timeout 900 ./check {pid} --replay {f}", {"VERIF_REPO": W})
        b = sh(f"cd /verif && timeout 900 ./check {pid} --replay {f}")
        results.append((pid, "replay on changed tree rc=%d, on /repo rc=%d" % (a.returncode, b.returncode), "OK" if (a.returncode == 1 and b.returncode == 0) else "BAD: " + (a.stdout + a.stderr + b.stdout + b.stderr)[-300:]))
    finally:
        sh(f"git -C /repo worktree remove --force {W}")
for r in results:
    print(*r)
