#!/usr/bin/env python3
"""tools/replay_smoke.py [SEED_ID ...]   (default: the first-wave change m1 of every property)
For each seeded change: run the property's quick check against the changed tree, take EVERY replay file it names (up to
4), replay each against the changed tree (must reproduce: exit 1) and against /repo (must not: exit 0)."""
import json, os, subprocess, sys


def sh(cmd, env=None, timeout=2400):
    e = dict(os.environ)
    e.update(env or {})
    return subprocess.run(cmd, shell=True, capture_output=True, text=True, env=e, timeout=timeout)


seeds = sys.argv[1:] or ["C%02d-m1" % i for i in range(1, 21)]
for sid in seeds:
    pid = sid.split("-")[0]
    seed = f"/verif/seeded/{sid}"
    W = f"/var/tmp/replaysmoke.{sid}"
    sh(f"git -C /repo worktree remove --force {W}")
    meta = json.load(open(seed + "/meta.json"))
    base = meta.get("repo_head", "HEAD").split()[0]
    caught = [c for c, d in meta.get("checks_quick", {}).items() if d.get("violations")] or [pid]
    chk = pid if pid in caught else caught[0]
    sh(f"git -C /repo worktree add --detach -q {W} HEAD")
    if sh(f"git -C {W} apply {seed}/patch.diff").returncode != 0:
        sh(f"git -C /repo worktree remove --force {W}")
        sh(f"git -C /repo worktree add --detach -q {W} {base}")
        sh(f"git -C {W} apply {seed}/patch.diff")
    try:
        r = sh(f"cd /verif && timeout 1500 ./check {chk} --tier quick", {"VERIF_REPO": W})
        files = [l.split("replay=")[1].strip() for l in r.stdout.splitlines() if l.startswith("VIOLATION")][:4]
        if not files:
            print(sid, chk, "NO VIOLATION", r.returncode, flush=True)
            continue
        for f in files:
            a = sh(f"cd /verif && timeout 900 ./check {chk} --replay {f}", {"VERIF_REPO": W})
            b = sh(f"cd /verif && timeout 900 ./check {chk} --replay {f}")
            ok = a.returncode == 1 and b.returncode == 0
            sig = json.load(open(f)).get("signature") if os.path.exists(f) else None
            print(sid, chk, "replay changed rc=%d /repo rc=%d" % (a.returncode, b.returncode), "OK" if ok else "BAD " + json.dumps(sig) + " :: " + (a.stdout + a.stderr)[-200:].replace("\n", " | "), flush=True)
    finally:
        sh(f"git -C /repo worktree remove --force {W}")
