#!/usr/bin/env python3
"""tools/verify_seed.py SRC_DIR ID NAME PROPERTY [check ids...]
Confirm a seeded change myself and file it under /verif/seeded/<ID>-<NAME>/:
  1. the patch applies to /repo HEAD in a scratch worktree (outside /repo and /verif),
  2. the repository's own test suite still passes with it (2431 passed),
  3. the demonstration fails with the change and passes without it,
  4. which of my checks (quick tier, VERIF_REPO=scratch) report a VIOLATION.
The worktree is removed afterwards."""
import json, os, shutil, subprocess, sys, time

src, sid, name, prop = sys.argv[1:5]
checks = sys.argv[5:] or [prop]
OUTNAME = os.environ.get("SEED_NAME", name)
FALLBACK = os.environ.get("SEED_BASE")  # commit the patch was written against, used if it no longer applies to HEAD
patch = os.path.join(src, f"{name}.patch")
demo = os.path.join(src, f"{name}_demo.py")
W = f"/var/tmp/seedverify.{os.getpid()}"
out = os.path.join("/verif/seeded", f"{sid}-{OUTNAME}")

def sh(cmd, **kw):
    return subprocess.run(cmd, shell=True, capture_output=True, text=True, **kw)

head = sh("git -C /repo rev-parse --short HEAD").stdout.strip()
sh(f"git -C /repo worktree add --detach -q {W} HEAD")
if FALLBACK and sh(f"git -C {W} apply --check {patch}").returncode != 0:
    sh(f"git -C /repo worktree remove --force {W}")
    sh(f"git -C /repo worktree add --detach -q {W} {FALLBACK}")
    head = FALLBACK + " (patch does not apply to HEAD any more: a later fix: commit touches the same lines)"
meta = {"id": f"{sid}-{OUTNAME}", "breaks_property": prop, "repo_head": head, "verified_at": time.strftime("%Y-%m-%d %H:%M")}
try:
    r = sh(f"/venv/bin/python {demo} {W}")
    meta["demo_on_clean_tree"] = {"exit": r.returncode, "tail": (r.stdout + r.stderr).strip()[-200:]}
    r = sh(f"git -C {W} apply {patch}")
    meta["applies"] = r.returncode == 0
    if r.returncode != 0:
        meta["apply_error"] = r.stderr[-300:]
    else:
        r = sh(f"cd {W} && /venv/bin/python -m pytest -q -p no:cacheprovider 2>&1 | tail -1")
        meta["suite_with_change"] = r.stdout.strip()
        r = sh(f"/venv/bin/python {demo} {W}")
        meta["demo_on_changed_tree"] = {"exit": r.returncode, "tail": (r.stdout + r.stderr).strip()[-300:]}
        det = {}
        for c in checks:
            r = sh(f"cd /verif && VERIF_REPO={W} timeout 1500 ./check {c} --tier quick")
            viol = [l for l in r.stdout.splitlines() if l.startswith("VIOLATION") or l.strip().startswith("signature=")]
            det[c] = {"exit": r.returncode, "violations": sum(1 for l in viol if l.startswith("VIOLATION")), "first_signatures": [l.strip() for l in viol if "signature=" in l][:3]}
        meta["checks_quick"] = det
finally:
    sh(f"git -C /repo worktree remove --force {W}")
os.makedirs(out, exist_ok=True)
shutil.copy(patch, os.path.join(out, "patch.diff"))
shutil.copy(demo, os.path.join(out, "demo.py"))
notes = os.path.join(src, "NOTES.md")
if os.path.exists(notes):
    shutil.copy(notes, os.path.join(out, "AGENT_NOTES.md"))
ok = meta.get("applies") and "2431 passed" in meta.get("suite_with_change", "") and meta["demo_on_changed_tree"]["exit"] != 0 and meta["demo_on_clean_tree"]["exit"] == 0
meta["confirmed"] = bool(ok)
meta["what_ran"] = "tools/verify_seed.py: git worktree of /repo HEAD under /var/tmp, git apply, pytest -q (full suite), demo on changed and clean tree, ./check <id> --tier quick with VERIF_REPO"
json.dump(meta, open(os.path.join(out, "meta.json"), "w"), indent=1)
caught = [c for c, d in meta.get("checks_quick", {}).items() if d["violations"]]
print(f"{sid}-{OUTNAME}: confirmed={meta['confirmed']} suite={meta.get('suite_with_change')} demo_changed={meta.get('demo_on_changed_tree',{}).get('exit')} demo_clean={meta['demo_on_clean_tree']['exit']} caught_by={caught}")
