#!/bin/sh
# tools/run_all.sh [quick|thorough]: run every registered check against /repo, one line per check
TIER=${1:-quick}
cd "$(dirname "$0")/.." || exit 2
rc_all=0
for i in 01 02 03 04 05 06 07 08 09 10 11 12 13 14 15 16 17 18 19 20; do
  s=$(date +%s)
  out=$(./check C$i --tier $TIER 2>&1); rc=$?
  e=$(date +%s)
  v=$(printf '%s\n' "$out" | grep -c '^VIOLATION')
  k=$(printf '%s\n' "$out" | grep -c '^KNOWN-FINDING')
  echo "C$i rc=$rc violations=$v known=$k wall=$((e-s))s $(printf '%s\n' "$out" | grep "^C$i tier" | sed 's/.*evaluations/evaluations/' | cut -c1-120)"
  [ $rc -ne 0 ] && rc_all=1 && printf '%s\n' "$out" | grep -A3 -E '^VIOLATION|HARNESS' | head -12
done
exit $rc_all
