#!/bin/sh
# tools/try_patch.sh PATCH TIER Cxx [Cyy...]: apply PATCH to a scratch worktree of /repo HEAD (outside /repo and /verif),
# run the named checks against it via VERIF_REPO, report, and remove the worktree again.
PATCH=$1; TIER=$2; shift 2
W=/var/tmp/mut.$$
git -C /repo worktree add --detach -q "$W" HEAD || exit 2
if ! git -C "$W" apply "$PATCH"; then echo "PATCH DOES NOT APPLY"; git -C /repo worktree remove --force "$W"; exit 2; fi
cd /verif
for c in "$@"; do
  out=$(VERIF_REPO=$W timeout ${CHECK_TIMEOUT:-1500} ./check "$c" --tier "$TIER" 2>&1); rc=$?
  n=$(printf '%s\n' "$out" | grep -c '^VIOLATION')
  echo "== $c rc=$rc violations=$n"
  printf '%s\n' "$out" | grep -A1 '^VIOLATION' | head -${SHOW:-6} | cut -c1-300
  printf '%s\n' "$out" | grep -A3 'HARNESS-ERROR' | head -8
done
git -C /repo worktree remove --force "$W"
