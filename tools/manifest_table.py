"""Table behind MANIFEST.json: one row per property that has a registered check."""

_ALL = ["C%02d" % i for i in range(1, 21)]

CHECKS = [
    {
        "id": "C03",
        "text": "Bounded-exhaustive exploration of the real Splitter: every token sequence over the 17-token splitter alphabet up to "
        "length 5 (quick) / 6 plus a 12-token core to 7 (thorough), every combination of <=1 (quick) / <=2 (thorough) token edits of 6 base "
        "documents and a whitespace-layout family; on each execution a cursor walk decides tiling (in order, no overlap, only whitespace "
        "between, nothing dropped) and the block/field line numbers. The property quantifies over all texts; the bound is stated in the evidence.",
        "note": "Texts outside the alphabets and longer than the bounds are not covered; whitespace = str.isspace, line = '\\n'. "
        "Field lines are decided only for fields that can be re-located verbatim in the entry's raw text (all fields of parsed entries).",
        "technique": "stateless bounded-exhaustive model checking of the implementation (token sequences + deviation-bounded edits), cursor-walk invariant",
    },
    {
        "id": "C01",
        "text": "Bounded-exhaustive exploration of parse_string -> write_string (default and empty stacks) on the real code: every token "
        "sequence over the 17-token splitter alphabet up to length 5 (quick) / 6 (thorough, plus an extended alphabet with CRLF, NBSP, "
        "non-ASCII, form feed, U+2028 to 5), every combination of <=1/<=2 token edits of 6 base documents, and 38 size-scaled families "
        "(blank/comment/value lines, nesting depth, entries, unterminated blocks, ...) at sizes up to 10^4 (quick) / 10^6 (thorough). "
        "Oracle: no exception of any kind, Library/str results, every failed block carries an Exception and a non-empty raw taken from "
        "the input; hangs via a generous watchdog.",
        "note": "Inputs outside the alphabets/families and larger than the stated sizes are not covered. 'No hang' can only be decided by a time bound (120 s / 900 s per case).",
        "technique": "stateless bounded-exhaustive model checking of the implementation (token sequences, deviation-bounded edits, size-scaled families)",
    },
    {
        "id": "C02",
        "text": "Bounded-exhaustive exploration against a reference recogniser of the dialect grammar plus constructive ground truth: all value "
        "token sequences <=5/<=6 that are well-formed values, in three contexts; ~128k generated entries (heads x keys x field lists over a "
        "17-value catalogue x comma forms x whitespace at every gap); all documents of <=2/<=3 catalogue blocks x gap texts; all splitter-alphabet "
        "token sequences <=5/<=6 accepted by the recogniser. Oracle: exact block list (class, lower-cased type, key, field keys in order, verbatim values, "
        "comment/preamble/string text), no failed block, both via Splitter and parse_string(parse_stack=[]).",
        "note": "Well-formed means derivable from the grammar in DESIGN.md 3.1 with restrictions R1-R6; the recogniser is trusted for L4 (validated by agreement with the constructive oracle on L1-L3 and by selftest).",
        "technique": "bounded-exhaustive model checking of the implementation against a reference recogniser (two-oracle rule)",
    },
    {
        "id": "C04",
        "text": "Bounded-exhaustive exploration of triples D1.X.'\\n'.D2 on the real parser: 5 well-formed prefixes x 6 well-formed suffixes x every "
        "token sequence X over the splitter alphabet up to length 4 (quick) / 5 (thorough) plus every prefix and single-token edit of 6 valid blocks; "
        "splitter-only and default stack. Oracle (differential): the first blocks equal those of D1 parsed alone in full, the last blocks equal those of D2 "
        "parsed alone in class, content, raw, metadata and start lines shifted by the lines before D2.",
        "note": "Key pools of D1, X, D2 are disjoint by construction; X beyond the length bound is not covered.",
        "technique": "bounded-exhaustive model checking of the implementation with a differential oracle (parse of parts vs parse of concatenation)",
    },
    {
        "id": "C08",
        "text": "Explicit-state breadth-first closure of the reachable state graph of real Library objects under add/remove/replace (all argument forms and flags) "
        "over a universe of 7 (quick) / 8 (thorough) blocks with forced key collisions, libraries pruned at length 3 / 4, from 4 initial states, plus all histories of "
        "length <=2 / <=3 without deduplication. After every call (also raising ones) the object is compared with a list+dict reference model and the identity/partition "
        "invariants; ValueError must leave the canonical state unchanged. F9 (add with fail_on_duplicate_key raises after inserting) is a recorded known finding.",
        "note": "Universe and length bound as stated; canonical-state deduplication is justified in DESIGN 4/C08 and guarded by the no-dedup run.",
        "technique": "explicit-state model checking (BFS over operation histories on the real object, reference model, canonical-state deduplication)",
    },
    {
        "id": 'C05',
        "text": 'Bounded-exhaustive exploration of the trace d -parse-> L1 -write(F)-> W1 -parse-> L2 -write(F)-> W2 on the real default stacks: ~5.3k (quick) / ~100k (thorough) grammar-derived documents (generated entries over a 17-value catalogue incl. concatenations, numbers, nested braces, quote-in-brace-in-quote, multi-line values, zero fields; every document of <=2/<=3 catalogue blocks x gap texts; @string references resolved/unresolved/defined later) x the full product of BibtexFormat settings (54 / 240 formats). Oracle: content(L1)==content(L2), W1==W2 byte for byte, library and format untouched by writing.',
        "note": 'Indent/separator range over whitespace-only strings; documents are those on which recogniser and generator agree; bounds as stated.',
        "technique": 'bounded-exhaustive model checking of the implementation (documents x formats product) with differential round-trip laws',
    },
    {
        "id": 'C06',
        "text": 'Bounded-exhaustive exploration of the writer: every library of <=2 (quick) / <=3 (thorough) blocks over a 15-block universe (entries with 0/1/3 fields and keys shorter/equal/longer than the column, strings, preamble, comments, four kinds of failed blocks incl. CRLF and newline-terminated raw) x the product indent x value_column (9 values quick, 0..40+auto thorough) x trailing_comma x block_separator x parsing_failed_comment, through the empty and the default write stack, compared block by block with a reference renderer written from the property text (separator placement, field line layout, column rule, auto column, comma rule, verbatim failed blocks under the configured comment, format object unchanged).',
        "note": 'Exact layout is constrained only where the property states it (entries, failed blocks, separators); strings/preambles/comments must end in a newline and re-parse to the same content. {n} may be any usual line count.',
        "technique": 'bounded-exhaustive model checking of the implementation against a reference renderer (libraries x formats product)',
    },
    {
        "id": 'C07',
        "text": 'Bounded-exhaustive exploration of copy-mode middleware stacks on the real code: 17 libraries (parses of catalogue documents with every block kind incl. failed/duplicate/middleware-error blocks, plus list-, NameParts- and int-valued variants) x every stack of length <=2 (quick) / <=3 (thorough) over a pool of 44 middleware instances (every shipped class with allow_inplace_modification=False in every option set, and the block sorter), instances reused within a stack. After each stage: canonical snapshot of the input unchanged, alias walker finds no mutable object reachable from both input and output; same for the original library vs the final result. Plus write_string twice under 6 formats.',
        "note": 'Exception objects and immutable atoms are not aliasing; a stage that raises ends the trace without verdict (counted).',
        "technique": 'bounded-exhaustive model checking of the implementation (stack products) with structural-snapshot and object-graph alias invariants',
    },
    {
        "id": 'C09',
        "text": 'Bounded-exhaustive exploration: every document of <=4 (quick) / <=5 (thorough) blocks over a 15-block catalogue with colliding entry/string/field keys (incl. keys padded with non-ASCII blanks), two separators, default and empty parse stack; compared with a constructive reference walk: one block per source block, first holder live, later holders wrapped in place exposing key / first block (identity under the in-place stack) / complete duplicate with raw, repeated field keys -> duplicate-field block with every occurrence and not registered as live, entries_dict/strings_dict equal the live maps.',
        "note": 'Catalogue and length bound as stated.',
        "technique": 'bounded-exhaustive model checking of the implementation against a constructive reference model',
    },
    {
        "id": 'C10',
        "text": 'Bounded-exhaustive exploration of Remove/AddEnclosing: every field/@string value the real splitter produces from all value token sequences <=4 (quick) / <=5 (thorough) in three contexts, 23 special values, ints and digit strings x {field, @string} x all 8 AddEnclosing option sets x metadata {absent, recorded {, ", none, recorded for other fields only} x 6 field keys, in-place and copy. Laws: reference strip + recorded enclosing, restore with reuse, re-parse of default-enclosed balanced content through the real splitter, integer/default/reuse precedence, no exception.',
        "note": 'Re-parse law restricted as the property states; negative ints and non-ASCII digit strings only under the no-exception clause.',
        "technique": 'bounded-exhaustive model checking of the implementation against a reference strip/enclose model and a re-parse law',
    },
    {
        "id": 'C11',
        "text": "Bounded-exhaustive exploration: every document of <=4 (quick) / <=5 (thorough) blocks over an 11-block catalogue (duplicate and case-variant @string definitions, a string whose value is an identifier, an entry with every value form, an entry naming one string twice, definitions before/after/absent), default stack, compared with a reference computed from the source text: exactly bare case-sensitive matches of the first definition resolve to that string's final value, everything else keeps its own content, strings stay as a resolver-free stack leaves them, resolved keys recorded in field order.",
        "note": 'Only live entries are judged; catalogue and length bound as stated.',
        "technique": 'bounded-exhaustive model checking of the implementation against a reference resolver',
    },
    {
        "id": 'C12',
        "text": "Bounded-exhaustive exploration of split_multiple_persons_names: every token sequence over a 19-token alphabet up to length 5 (quick) / 6 plus a core alphabet to 7 (thorough), the exact token-edit balls of radius 2 (3 for the shortest base in thorough) around 4 realistic author lists, every list of <=3/<=4 catalogue names x 5 separator spellings, and the SeparateCoAuthors/MergeCoAuthors route. Oracles: conservation (regex full match of pieces and separators), idempotence, and on brace-balanced strings equality with an independent word-based reference splitter validated on the repository's 44 BibTeX-derived cases.",
        "note": "Whitespace is the co-author code's documented set; alphabet and bounds as stated.",
        "technique": 'bounded-exhaustive model checking of the implementation (token sequences + exact edit balls) against a reference splitter',
    },
    {
        "id": 'C13',
        "text": "Bounded-exhaustive exploration of parse_single_name_into_parts: every token sequence over a 21-token name alphabet (upper/lower/caseless words incl. a brace group holding a control word, special characters, escapes, separators, commas, unbalancing braces, bare backslash) up to length 5 (quick) / 6 (thorough), plus a 9-token word alphabet to length 7 / 8 (all case patterns of up to 4 words in all comma forms). Compared with a transcription of BibTeX's name rules (agrees with all 149 names of the repository's BibTeX-derived corpus in selftest) and a constructive oracle that knows each word's designed case; invalid names must raise InvalidNameError and, through SplitNameParts and parse_string, yield a MiddlewareErrorBlock retaining the entry.",
        "note": 'Words with table-driven case are outside the alphabet; names with an empty von-Last section are judged for word conservation only.',
        "technique": "bounded-exhaustive model checking of the implementation against a validated transcription of BibTeX's algorithm (two-oracle rule)",
    },
    {
        "id": 'C14',
        "text": "Bounded-exhaustive exploration of the inverse pair: every valid single name over the C13 alphabet up to length 4 (quick) / 5 (thorough) in the property's domain, and every list of 2 (quick) / 2-3 (thorough) persons over a 60-name catalogue (one per form x case pattern and per first-character class of the merged name), through the function pair and through parse_string(append=[SeparateCoAuthors, SplitNameParts]) -> write_string(prepend=[MergeNameParts, MergeCoAuthors]) -> parse for author (braced), editor (quoted), translator. Oracle: same NameParts lists, no failed block, other fields unchanged.",
        "note": "Domain as the property states plus: no person literally named 'and', value and merged value embeddable in the dialect (R3).",
        "technique": 'bounded-exhaustive model checking of the implementation with a differential inverse law (function pair and whole stack)',
    },
    {
        "id": 'C15',
        "text": 'Exhaustive as the property states: 12 months x every spelling (int, digit strings with 0-2 leading zeros, all case variants of abbreviation and full name: 1704 values) x 3 middlewares x all 9 ordered pairs x in-place/copy; 54 non-month values (incl. tuples, containers, floats, Fraction, Decimal, complex, bytes, case-folding look-alikes) must come back identical; ~200 Unicode values (non-ASCII digits, one code point per category, 5000-digit string, NUL, surrogate) for the no-exception clause; long-lived instances compared with fresh ones over collision sequences; entries without month untouched. Oracle: the 12-month table, result types, composition law M2(M1(v)) == M2(v).',
        "note": 'bool is not treated as an integer month.',
        "technique": 'exhaustive model checking of the implementation over the finite month/value space against a table reference and a composition law',
    },
    {
        "id": 'C16',
        "text": 'Bounded-exhaustive exploration of SortBlocksByTypeAndKeyMiddleware: every library of <=3 (quick) / <=4 (thorough) blocks over an 11-block universe (equal keys across types, empty key, duplicate-key and duplicate-field blocks, failed block, both comment kinds) x all 326 ordered sub-permutations of the five block types x both comment modes (0.95M / 10.5M transforms). Judged by the property itself: permutation of canonical blocks, non-decreasing (rank, key), ties in input order, comment runs directly above their block, input unchanged and unaliased.',
        "note": 'Position of a trailing comment-only run is not constrained.',
        "technique": 'bounded-exhaustive model checking of the implementation (libraries x orders product) with property-style invariants',
    },
    {
        "id": 'C17',
        "text": 'Bounded-exhaustive exploration of SortFieldsAlphabetically, SortFieldsCustom and NormalizeFieldKeys: every entry with 0..5 (quick) / 0..6 (custom) and 0..8 (alphabetical, normalise) (thorough) fields over keys {a, A, b, B, c}, values unique per position, x 130 custom orders (all permutations of all subsets of {a, A, b, c}, case-sensitive or not; colliding orders must be rejected at construction), in-place and copy, library also holding one block of every other kind. Judged by the property: permutation, rank order, ties in source order, normalisation merge rule, idempotence, everything else untouched.',
        "note": 'Alphabetical order is Python string order.',
        "technique": 'bounded-exhaustive model checking of the implementation (entries x orders product) with property-style invariants',
    },
    {
        "id": 'C18',
        "text": 'Bounded-exhaustive exploration of Latex en/decoding: round trip decode(encode(t)) == t for every token sequence up to length 3 (quick) / 4 (thorough) over a 48-token text alphabet (incl. NBSP and tab) (letters, accented letters, punctuation, TeX specials, math and URL tokens) x keep_math x enclose_urls, through fields and @string, with fresh and long-lived instances; scope/type claims on a catalogue library (str, int, list, NameParts, None values, strings, every other block kind) under 40 constructor variants incl. custom converters, in-place and copy; containment of converter failures at first/last field, name part and @string. F18 (URLs containing $ % & \\ { } ~) is a recorded known finding of the third-party decoder.',
        "note": 'Decided for pylatexenc as installed; texts that are ambiguous in themselves are outside the alphabet (DESIGN 3.2).',
        "technique": 'bounded-exhaustive model checking of the implementation (token sequences x options) with round-trip, scope and containment oracles',
    },
    {
        "id": 'C19',
        "text": 'Explicit-state breadth-first closure of the state graph of real Entry objects under all mutating operations (set_field, item assignment, pop with/without default, del) over keys {a, A, TYPE} x values {1, 2} from the empty entry and parsed entries, every read accessor evaluated in every state against a plain dict, plus every history of mutating and reading operations to depth 3 (quick) / 4 (thorough) without deduplication; and for every block and field of 8 parsed documents every single-attribute perturbation (!= both ways) and copy/deepcopy (== both ways), cross-class pairs.',
        "note": 'Canonical state is the whole __dict__ of the entry, so hidden state added by a change splits states instead of hiding them; del of an absent key is mapped to pop as documented.',
        "technique": 'explicit-state model checking (BFS over operation histories on the real object against a dict reference) + exhaustive single-attribute perturbations',
    },
    {
        "id": 'C20',
        "text": 'Bounded-exhaustive exploration of the entry points: every stack of 0..2 (quick) / 0..3 (thorough) middlewares over a 7-element pool (3 order-sensitive probes, a library probe, RemoveEnclosing, AddEnclosing, ResolveStringReferences) in each of 6 argument positions x list/tuple/one-shot iterator x 5 documents, each compared with the same stack folded by hand over Splitter output / handed to the writer and followed by a default call (state left between calls); parse_file x 5 documents x up to 5 encodings x 4 stack arguments; write_file x path/StringIO/file object x stack and format arguments; illegal argument pairs on all 4 entry points; block-protocol probes (18 result shapes x 5 block kinds x 3 routes).',
        "note": "Default stacks are the documented ones (constructed by the harness, not taken from the library's factory functions); write_file(path) decided for the process' default text encoding.",
        "technique": 'bounded-exhaustive model checking of the implementation with a differential oracle (entry point vs hand-folded stack)',
    },
]

# families added after the second wave of seeded changes (DESIGN 10.7)
EXTRA = {
    "C01": "Also: size-n realistic documents (n up to 300 / 4100) with 60 truncations and 120 single-character corruptions each, @string self-reference / cycle / chain families, and plain calls after the documented custom-middleware workflows (state left between calls).",
    "C02": "Also: structural value sequences over { } \" , up to length 11 / 13, size-n documents with constructive ground truth, a second document parsed into the same library, and an earlier call on a truncated document before every judged call.",
    "C03": "Also: size-n documents with truncations and corruptions, through Splitter, parse_string (default stack) and parse_string with a user stack whose instances live across calls; an extended alphabet (CRLF, NBSP, non-ASCII, form feed, U+2028).",
    "C04": "Also: the malformed middle parsed on its own before every triple (nothing of an earlier call may survive), and size-scaled middles (nesting depth, unterminated blocks) up to 3000 / 10^5.",
    "C05": "Also: one parsed library written under every format in turn (compared with a fresh parse), and size-n documents.",
    "C06": "Also: parsed libraries of n entries (thousands of output pieces) and a history of writes and in-place edits on one Library / BibtexFormat.",
    "C07": "Also: every pool instance long-lived over all libraries (forwards and backwards, compared with fresh instances), a library on which a copy-mode middleware itself produces the error block, and a 130-entry library.",
    "C09": "Also: a second document parsed into the library of the first, optionally after a rolled-back replace, compared with parsing both in one go.",
    "C10": "Also: long-lived Remove/AddEnclosing instances over sequences of values, and @string blocks named like numeric fields.",
    "C11": "Also: size-n documents with @string keys of different lengths referenced far away, and a long-lived resolver instance over sequences of documents.",
    "C12": "Also: a nesting-depth family and lists of up to 1000 names.",
    "C13": "Also: the exact token-edit balls of radius 2 / 3 around four realistic names, long-lived SplitNameParts / SeparateCoAuthors instances, and results edited by the caller before the same name is parsed again.",
    "C14": "Also: four separator spellings (incl. 'and' at a line start) and results edited by the caller before the merged text is split again.",
    "C15": "Also: apply-edit-apply with one instance.",
    "C16": "Also: blocks are identified by a tag in their raw text and start lines run against the library order; a long-lived sorter over sequences of libraries.",
    "C17": "Also: long-lived instances over sequences of entries.",
    "C18": "Also: libraries of n entries (block count and structure preserved; round trip of their values), a failing @string before good entries on one instance.",
    "C19": "Also: equality of independently built blocks and fields on every line of size-n documents (line numbers beyond 256), copies compared after reading accessors.",
    "C20": "Also: the same stack instances over several calls, a block middleware reused after a failing call, and files of 70 KB..1.1 MB in utf-8 / gbk / utf-16 / latin-1 with every alignment of multi-byte characters.",
}
for _c in CHECKS:
    if _c["id"] in EXTRA:
        _c["text"] = _c["text"] + " " + EXTRA[_c["id"]]

# families added after the third and fourth waves (DESIGN 10.10, 10.12)
EXTRA2 = {
    "C01": "Appending middleware of the same types as the default stack must only warn; any exception in a documented workflow is a violation.",
    "C02": "A block removed through an equal copy and the document parsed into the library again; keys ending in a backslash.",
    "C04": "A prefix ending in an entry that repeats a field key; a RefTeX-form suffix.",
    "C05": "A rejected write between the two writes of every trace (same format object); documents with structurally equal blocks, a dotted capital I type, text ending in a backslash.",
    "C06": "The same block object at several positions; rejected writes (hostile library, bad comment template) inside the history; non-ASCII keys.",
    "C07": "Hostile libraries (odd value types, non-string keys, unknown block class) interleaved into every long-lived sequence; a copy-mode stage that raises must leave its input; copy vs in-place differential for raising stages.",
    "C08": "add() fed by an iterable that raises half way; an Entry subclass; an entry with the empty key.",
    "C10": "Failing calls interleaved (an instance after a failed call behaves like a fresh one, copy-mode still copies); repeated adds from one stripped library.",
    "C11": "An @string whose content equals its key; CRLF documents; failing calls interleaved.",
    "C12": "A name field key held twice by a programmatically built entry.",
    "C13": "The error block for an invalid name must be copyable and writable; a valid name before the invalid one; brace groups opening with backslash-blank.",
    "C14": "Name fields sharing one list object; failing calls interleaved.",
    "C15": "Chains of three middlewares.",
    "C16": "The same comment object above several blocks; twins and non-ASCII keys; a sort that raised before the judged one.",
    "C17": "Failing calls (bad field first / middle / last) interleaved; Unicode keys.",
    "C18": "Converters raising nine exception types; values nested 3000 deep; NameParts sharing lists.",
    "C19": "The mapping hands out and keeps the very Field objects; a Field obtained earlier is not rewritten by a later assignment; odd keys.",
    "C20": "Failure paths: a rejected write_file leaves the target untouched / uncreated, a rejected parse into a library leaves it consistent and reusable; colliding keys after an in-place key change.",
}
for _c in CHECKS:
    if _c["id"] in EXTRA2:
        _c["text"] = _c["text"] + " " + EXTRA2[_c["id"]]

# families added after the fifth and sixth waves (DESIGN 10.15, 10.16)
EXTRA3 = {
    "C01": "Stacks given as tuples and iterators.",
    "C02": "The default stack must give the same block shapes; entry types that resemble, contain or begin with a keyword (@Commentary, @stringent); field names of one entry differing only in case; at-sign + word + line break + brace inside values.",
    "C03": "Field lines also for entries that went through middleware (paired by position).",
    "C04": "Entry types with digits, underscore, non-ASCII letters after a truncated block.",
    "C05": "The round trip is judged even if the first parse reports a failed block.",
    "C06": "Columns and field keys up to 1000 characters; an empty field key as the longest key.",
    "C07": "transform_block called directly; every pool configuration built by position; the stack factories in copy mode stage by stage; the same library object handed to a long-lived instance twice with an in-place edit in between.",
    "C08": "Failed blocks made by the caller handed to add / replace; replace with the flag left out / by position / by keyword; user subclasses of Entry and String colliding with plain blocks.",
    "C09": "Every view read between the two parts of a document; field names differing only in case are not repeats.",
    "C10": "Construction by position; values with an at-sign before white space and a brace.",
    "C11": "@string without content; a document parsed in two parts; a definition that breaks off.",
    "C12": "str-subclass values; results edited by the caller before the same text is split again.",
    "C13": "A 10-token alphabet of Unicode case classes (letters without case, cased non-letters, title case, special characters without cased letters) to length 5 / 6.",
    "C14": "Names whose deciding word is a letter without case / a cased non-letter; CR and CRLF separators; NameParts built by position and its copies.",
    "C15": "Values of str / int subclasses and IntEnum; digit strings behind 3..20000 zeros.",
    "C16": "User subclasses of the comment classes and of Entry; the same library sorted again after an in-place edit.",
    "C17": "One configuration in several spellings (by position, order as list, str-subclass keys; a non-bool flag must behave as ONE of the bool configurations); fields keep their source line; sharp-s orders.",
    "C18": "Blocks carrying the notes of earlier stages (removed enclosings, resolved references) are converted like fresh ones.",
    "C19": "Assigning a value equal to the stored one (True over 1, a str-subclass instance, an equal Field) stores the new object.",
    "C20": "Hook dispatch of user block middlewares decided by the class alone (same-named classes, subclasses of shipped middlewares); library-level results that are falsy; any Collection of blocks and blocks that are themselves sized and iterable.",
}
for _c in CHECKS:
    if _c["id"] in EXTRA3:
        _c["text"] = _c["text"] + " " + EXTRA3[_c["id"]]

# mid-range families added after the seventh wave (DESIGN 10.18)
EXTRA4 = {
    "C01": "Counts of distinct repeated things (n different field keys each repeated, ...).",
    "C05": "Values nesting 1..8 deep next to sibling groups; enclosed contents named like a defined @string in well-known fields.",
    "C09": "Entries of 1..16 (40) distinct field keys with key number i repeated, for every i; a copy-mode user middleware in the parse stack.",
    "C10": "Every sequence over { } \" a up to length 7 (10) as a value; nesting next to sibling groups.",
    "C12": "Lists of 4..6 (7) persons with mixed separators; rare shapes embedded in regular lists of 3..1000 names.",
    "C13": "Every case pattern of 5..7 (9) plain words with no, one or two commas.",
    "C14": "The same word patterns through the inverse law; the style attribute set after use.",
    "C15": "The month middleware after every ordered pair of seven other shipped middlewares; the caller's input library edited and transformed again; ints beyond Python's int-to-text limit.",
    "C16": "Libraries of 5 (..7) blocks over a six-block sub-universe; orders that also name failed-block classes.",
    "C17": "Orders of 5..12 (20) keys with several unlisted keys, one instance over all entries.",
    "C18": "A core alphabet of 8 tokens to length 5 (7); a formula with two escaped dollar signs; a key held twice of which one occurrence fails.",
    "C19": "Entries of 1..13 (40) fields: every operation at every position, then a second one; pop with the stored Field as default.",
    "C20": "Removals, expansions and one-to-one results mixed within one pass; a probe that adds a long field key under 'auto'.",
}
for _c in CHECKS:
    if _c["id"] in EXTRA4:
        _c["text"] = _c["text"] + " " + EXTRA4[_c["id"]]

# families added after the eighth wave (DESIGN 10.19)
EXTRA5 = {
    "C01": "A 20-token document alphabet with the characters %-formats, templates and regular expressions give meaning to.",
    "C02": "Free text and comments with letters whose case mappings change length.",
    "C03": "The same 20-token alphabet.",
    "C04": "Repeated field keys and entry keys holding %-formats; an entry without a type as suffix.",
    "C05": "'auto' as an equal string built at run time; values ending in a backslash and a line break.",
    "C06": "'auto' built at run time; values ending in the writer's own punctuation; an entry holding a key twice.",
    "C08": "Key maps: the same closure steps with keys holding format / template / regex characters.",
    "C09": "Entry, string and field keys holding %-formats; the empty field key repeated.",
    "C11": "String names that are not identifiers (a.b, x+y) match literally; an entry keyed like a string.",
    "C13": "Invalid names holding a %.",
    "C14": "The stacks handed over as tuples and one-shot iterators.",
    "C15": "Strings int() / float() would still accept (+3, 1_2, full-width digits) and negative ints.",
    "C16": "Keys holding %-formats and regex characters.",
    "C17": "Orders and field keys with regex metacharacters (author+an, a.b).",
    "C18": "Converters failing with exceptions whose arguments are not text or empty, on values holding format characters.",
    "C19": "Keys holding format characters; an empty entry type and key.",
    "C20": "One list object refilled for every block.",
}
for _c in CHECKS:
    if _c["id"] in EXTRA5:
        _c["text"] = _c["text"] + " " + EXTRA5[_c["id"]]

# families added after the ninth wave (DESIGN 10.20)
EXTRA6 = {
    "C01": "Runs of blanks / tabs / word characters after an at-sign up to 10^4 (time stays linear: watchdog).",
    "C02": "The whole catalogue once under python -O and -OO in a child interpreter.",
    "C03": "Free text of up to 40000 characters followed by runs of white space.",
    "C04": "Complete failed entries in the middle that hold the suffixes' keys.",
    "C05": "Free text that reads like the writer's own warning line.",
    "C06": "A user middleware in the stack that changes the field keys (layout computed after the stack).",
    "C07": "The alias walker looks through error objects; a duplicate wrapper whose first holder has left the library; the caller edits every list and dict of earlier results.",
    "C08": "An Entry subclass with a length (falsy without fields); twins differing in parser metadata only.",
    "C09": "A copy-mode resolver as parse stack; duplicates that refer to strings.",
    "C10": "An empty record of removed enclosings; a field key held twice.",
    "C11": "A string named like a month macro referenced from a month field.",
    "C12": "The separator rule wherever the brace depth is defined (groups may stay open); nesting 1500 / 5000 deep.",
    "C13": "A name field key held twice.",
    "C14": "Name values written bare in the source.",
    "C16": "Orders naming a type twice; int keys among entries.",
    "C17": "Field objects shared between entries / held twice.",
    "C18": "Upper-case URL look-alikes; two entries in flight on one instance (a converter that re-enters the middleware).",
    "C19": "A Field subclass under == and !=; a Field object assigned as a value.",
    "C20": "A latin-1 file that starts like a byte-order mark; target files that already hold the text with other line ends.",
}
for _c in CHECKS:
    if _c["id"] in EXTRA6:
        _c["text"] = _c["text"] + " " + EXTRA6[_c["id"]]
    _c["text"] = _c["text"] + " The library's DEBUG logging is on (records formatted and dropped) in every fourth shard of the quick tier and in all shards of the thorough tier, disabled in the others."

EXTRA7 = {
    "C01": "The implementation's own identifiers (every attribute name of every module and class, harvested at run time) as entry type, key, field key, string name and bare value; keys that differ only in letter case.",
    "C02": "The implementation's own identifiers wherever the grammar takes a name; block headers across window boundaries; groups nested 10 .. 5000 deep in every block kind.",
    "C04": "Middles padded so that the suffix's header lies across offsets 4096 .. 2^20; a middle that repeats a field key before it breaks off.",
    "C05": "Documents of 999 .. 4100 entries.",
    "C06": "One format object edited between writes (every ordered pair of settings and back); documents of 1000 .. 4100 entries.",
    "C07": "An invalid name in a later name field; every pool middleware and the write laws on libraries of 255 .. 1025 blocks.",
    "C08": "Calls that may raise anything (unhashable keys), judged view against view; a Library subclass that hands out copies of its block list.",
    "C09": "A second document's duplicates must expose the live first block; blocks removed through equal twins; keys differing only in letter case; entries of 1 .. 40 and 63 .. 258 fields.",
    "C10": "Switches given as 0 / 1; digits with white space, signs, separators; digit strings of 639 .. 5000 digits; construction order.",
    "C11": "String names, contents and field keys of length 1 .. 4097.",
    "C12": "Separate - merge - separate again on the same entry.",
    "C13": "The same list of persons again through one instance; brace groups nested 10 .. 5000 deep.",
    "C14": "Two name fields with one middleware instance per field.",
    "C15": "Construction order of the three middlewares.",
    "C16": "preserve_comments_on_top given as 1 / 0; libraries of 255 .. 3100 blocks with comment runs around every power of two; construction order.",
    "C17": "Many entries / colliding pairs / fields (15 .. 1025) through one instance; construction order.",
    "C18": "A user's Entry subclass that is sized and iterable; construction order of all encoder / decoder configurations against references from fresh interpreters; values of length 255 .. 8200.",
    "C19": "Histories that start from entries processed by the shipped middlewares (their marks in the metadata); entries of 1 .. 20 and 31 .. 258 fields.",
    "C20": "Block-middleware passes (tagging, doubling, dropping, chained) over libraries of 255 .. 4099 blocks.",
}
EXTRA8 = {
    "C04": "A middle of 16500 failed blocks.",
    "C05": "Default calls after a caller edited a list handed out by the stack factories.",
    "C06": "Two writes in flight on one format object (at each reading of the library's blocks); a Field object shared by several entries.",
    "C07": "Two passes in flight on one copying instance; blocks written through a temporary library.",
    "C08": "add() of an iterable that reads every view between yields (part of the BFS alphabet).",
    "C09": "A second part added through an iterable that reads the views; duplicates after a user pass that changed keys.",
    "C11": "Two default parses in flight through the views of a user's Library subclass.",
    "C13": "Two passes in flight on one SplitNameParts / SeparateCoAuthors instance.",
    "C14": "A NameParts object edited in place between two merges.",
    "C15": "Two passes in flight on one month-middleware instance.",
    "C16": "Two sorts in flight on one sorter (from a block's copy hook).",
    "C17": "Two calls in flight on one NormalizeFieldKeys instance (from a logging handler inside its warning).",
    "C19": "Two comparisons of the same blocks in flight (from a value's __eq__).",
    "C20": "Two calls in flight: a complete second call of 8 kinds from a hook of the outer call's own middleware, inline or in a second thread, four routes; two passes in flight on one instance; shared Field objects; factory lists edited by the caller; passes over 16387 / 65539 blocks.",
}
for _c in CHECKS:
    if _c["id"] in EXTRA8:
        _c["text"] = _c["text"] + " " + EXTRA8[_c["id"]]
for _c in CHECKS:
    if _c["id"] in EXTRA7:
        _c["text"] = _c["text"] + " " + EXTRA7[_c["id"]]
    _c["text"] = _c["text"] + (
        " Environments: the check's broad, cheap families (ENV_SHARDS) are run again in a fresh interpreter for each of 13 environments"
        " (hash seeds 1 .. 13; a C locale without UTF-8 mode; submodules imported in reverse order with the collector off; an eager collector"
        " under python -O; the integer-string limit lowered to 640 digits after import; a logging handler that makes a complete call of its own at every record), judged by the same oracles."
    )
    if "construction order" in EXTRA7.get(_c["id"], ""):
        _c["technique"] = _c["technique"] + "; ordered pairs of configurations against per-configuration references from fresh interpreters"
    _c["technique"] = _c["technique"] + "; exhaustive over a stated set of 13 interpreter environments for the ENV_SHARDS families"

CHECKS.sort(key=lambda c: c["id"])

_claimed = {c["id"] for c in CHECKS}
NOT_APPLICABLE = [
    {"property_id": p, "reason": "check not built yet (work in progress, see DESIGN.md section 9); no claim is made"}
    for p in _ALL
    if p not in _claimed
]
