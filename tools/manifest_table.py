"""Table behind MANIFEST.json: one row per property that has a registered check."""

_ALL = ["C%02d" % i for i in range(1, 21)]

CHECKS = [
    {
        "id": "C03",
        "text": "Bounded-exhaustive exploration of the real Splitter: every token sequence over the 17-token splitter alphabet up to "
        "length 5 (quick) / 6 plus a 12-token core to 7 (thorough), every combination of <=1 (quick) / <=2 (thorough) token edits of 6 base "
        "documents and a whitespace-layout family; on each execution a cursor walk decides tiling (in order, no overlap, only whitespace "
        "between, nothing dropped) and the block/field line numbers. The property quantifies over all texts; the bound is stated in the evidence.",
        "note": "Texts outside the alphabets and longer than the bounds are not covered; whitespace = str.isspace, line = '\\n'. "
        "Field lines are decided only for fields that can be re-located verbatim in the entry's raw text (all fields of parsed entries).",
        "technique": "stateless bounded-exhaustive model checking of the implementation (token sequences + deviation-bounded edits), cursor-walk invariant",
    },
    {
        "id": "C01",
        "text": "Bounded-exhaustive exploration of parse_string -> write_string (default and empty stacks) on the real code: every token "
        "sequence over the 17-token splitter alphabet up to length 5 (quick) / 6 (thorough, plus an extended alphabet with CRLF, NBSP, "
        "non-ASCII, form feed, U+2028 to 5), every combination of <=1/<=2 token edits of 6 base documents, and 38 size-scaled families "
        "(blank/comment/value lines, nesting depth, entries, unterminated blocks, ...) at sizes up to 10^4 (quick) / 10^6 (thorough). "
        "Oracle: no exception of any kind, Library/str results, every failed block carries an Exception and a non-empty raw taken from "
        "the input; hangs via a generous watchdog.",
        "note": "Inputs outside the alphabets/families and larger than the stated sizes are not covered. 'No hang' can only be decided by a time bound (120 s / 900 s per case).",
        "technique": "stateless bounded-exhaustive model checking of the implementation (token sequences, deviation-bounded edits, size-scaled families)",
    },
    {
        "id": "C02",
        "text": "Bounded-exhaustive exploration against a reference recogniser of the dialect grammar plus constructive ground truth: all value "
        "token sequences <=5/<=6 that are well-formed values, in three contexts; ~128k generated entries (heads x keys x field lists over a "
        "17-value catalogue x comma forms x whitespace at every gap); all documents of <=2/<=3 catalogue blocks x gap texts; all splitter-alphabet "
        "token sequences <=5/<=6 accepted by the recogniser. Oracle: exact block list (class, lower-cased type, key, field keys in order, verbatim values, "
        "comment/preamble/string text), no failed block, both via Splitter and parse_string(parse_stack=[]).",
        "note": "Well-formed means derivable from the grammar in DESIGN.md 3.1 with restrictions R1-R6; the recogniser is trusted for L4 (validated by agreement with the constructive oracle on L1-L3 and by selftest).",
        "technique": "bounded-exhaustive model checking of the implementation against a reference recogniser (two-oracle rule)",
    },
    {
        "id": "C04",
        "text": "Bounded-exhaustive exploration of triples D1.X.'\\n'.D2 on the real parser: 4 well-formed prefixes x 5 well-formed suffixes x every "
        "token sequence X over the splitter alphabet up to length 4 (quick) / 5 (thorough) plus every prefix and single-token edit of 6 valid blocks; "
        "splitter-only and default stack. Oracle (differential): the first blocks equal those of D1 parsed alone in full, the last blocks equal those of D2 "
        "parsed alone in class, content, raw, metadata and start lines shifted by the lines before D2.",
        "note": "Key pools of D1, X, D2 are disjoint by construction; X beyond the length bound is not covered.",
        "technique": "bounded-exhaustive model checking of the implementation with a differential oracle (parse of parts vs parse of concatenation)",
    },
    {
        "id": "C08",
        "text": "Explicit-state breadth-first closure of the reachable state graph of real Library objects under add/remove/replace (all argument forms and flags) "
        "over a universe of 7 (quick) / 9 (thorough) blocks with forced key collisions, libraries pruned at length 3 / 4, from 4 initial states, plus all histories of "
        "length <=2 / <=3 without deduplication. After every call (also raising ones) the object is compared with a list+dict reference model and the identity/partition "
        "invariants; ValueError must leave the canonical state unchanged. F9 (add with fail_on_duplicate_key raises after inserting) is a recorded known finding.",
        "note": "Universe and length bound as stated; canonical-state deduplication is justified in DESIGN 4/C08 and guarded by the no-dedup run.",
        "technique": "explicit-state model checking (BFS over operation histories on the real object, reference model, canonical-state deduplication)",
    },
]

_claimed = {c["id"] for c in CHECKS}
NOT_APPLICABLE = [
    {"property_id": p, "reason": "check not built yet (work in progress, see DESIGN.md section 9); no claim is made"}
    for p in _ALL
    if p not in _claimed
]
