"""Table behind MANIFEST.json: one row per property that has a registered check."""

_ALL = ["C%02d" % i for i in range(1, 21)]

CHECKS = [
    {
        "id": "C03",
        "text": "Bounded-exhaustive exploration of the real Splitter: every token sequence over the 17-token splitter alphabet up to "
        "length 5 (quick) / 6 plus a 12-token core to 7 (thorough), every combination of <=1 (quick) / <=2 (thorough) token edits of 6 base "
        "documents and a whitespace-layout family; on each execution a cursor walk decides tiling (in order, no overlap, only whitespace "
        "between, nothing dropped) and the block/field line numbers. The property quantifies over all texts; the bound is stated in the evidence.",
        "note": "Texts outside the alphabets and longer than the bounds are not covered; whitespace = str.isspace, line = '\\n'. "
        "Field lines are decided only for fields that can be re-located verbatim in the entry's raw text (all fields of parsed entries).",
        "technique": "stateless bounded-exhaustive model checking of the implementation (token sequences + deviation-bounded edits), cursor-walk invariant",
    },
]

_claimed = {c["id"] for c in CHECKS}
NOT_APPLICABLE = [
    {"property_id": p, "reason": "check not built yet (work in progress, see DESIGN.md section 9); no claim is made"}
    for p in _ALL
    if p not in _claimed
]
