#!/usr/bin/env python3
"""Regenerate /verif/MANIFEST.json from the table below (kept here so the manifest is always valid)."""
import json, os, sys

HERE = os.path.dirname(os.path.dirname(os.path.abspath(__file__)))
sys.path.insert(0, HERE)
from tools.manifest_table import CHECKS, NOT_APPLICABLE  # noqa

BASELINE = "cd /repo && /venv/bin/python -m pytest -ra -q -p no:cacheprovider --timeout=900 --continue-on-collection-errors"

m = {
    "version": 1,
    "setup_cmd": "./check selftest",
    "hooks": {
        "guard": "BIBTEXPARSER_VERIF",
        "enable": "not needed: every check observes the public API and public attributes of the unmodified library (no source hooks exist)",
        "baseline_off_cmd": BASELINE,
        "source_commits": [],
        "add_only": True,
    },
    "engines": [
        {
            "name": "mc",
            "path": "mc/",
            "serves_properties": [c["id"] for c in CHECKS],
            "kind_free_text": "stateless bounded-exhaustive explorer written for this task: enumerates token sequences / "
            "operation histories / configuration products completely up to stated bounds, executes every one on the real "
            "implementation in a 16-process pool, compares with reference models and differential laws, keeps a state graph "
            "keyed by canonical forms (DESIGN.md section 2)",
        }
    ],
    "checks": [],
    "notes": "All checks: ./check Cxx --tier quick|thorough ; replay: ./check Cxx --replay FILE ; known findings in known_findings.json ; "
    "VERIF_REPO overrides the tree under check (default /repo). Fix commits in /repo are listed in known_findings.json (status fixed).",
    "not_applicable": NOT_APPLICABLE,
}
for c in CHECKS:
    m["checks"].append(
        {
            "property_id": c["id"],
            "quick_cmd": f"./check {c['id']} --tier quick",
            "thorough_cmd": f"./check {c['id']} --tier thorough",
            "evidence_file": f"evidence/{c['id']}.json",
            "replay_cmd_template": f"./check {c['id']} --replay {{path}}",
            "engine": "mc",
            "level_claimed": {"category": "model_checking", "text": c["text"], "design_ref": c.get("ref", "DESIGN.md section 4/" + c["id"])},
            "level_note": c["note"],
            "technique": c["technique"],
        }
    )
with open(os.path.join(HERE, "MANIFEST.json"), "w") as f:
    json.dump(m, f, indent=1)
    f.write("\n")
print("wrote MANIFEST.json with", len(m["checks"]), "checks;", len(NOT_APPLICABLE), "not applicable")
