#!/usr/bin/env python3
"""tools/time_shards.py Cxx [max_s]: time every quick shard of a check (in a pool), print kinds with their costs."""
import collections, os, sys, time, multiprocessing
sys.path.insert(0, os.path.dirname(os.path.dirname(os.path.abspath(__file__))))
os.environ.setdefault("VERIF_ENVS", "0")
import importlib
from mc import engine

def work(a):
    modname, i, shard = a
    t = time.time()
    engine._worker((modname, i, shard, "quick", 0))
    return shard, time.time() - t

if __name__ == "__main__":
    modname = "mc.checks." + sys.argv[1].lower()
    mod = importlib.import_module(modname)
    shards = list(mod.shards("quick"))
    with multiprocessing.get_context("fork").Pool(16) as p:
        res = p.map(work, [(modname, i, s) for i, s in enumerate(shards)], chunksize=1)
    by = collections.defaultdict(list)
    for s, t in res:
        by[s[0]].append((t, s))
    for k, v in by.items():
        v.sort()
        print(f"{k:14s} n={len(v):4d} total={sum(t for t,_ in v):7.1f}s  min={v[0][0]:.2f}s {v[0][1]!r:.40}  max={v[-1][0]:.2f}s")
