"""Bounded exhaustive exploration ("model checking" family) of python-bibtexparser.

See /verif/DESIGN.md.  Importing this package binds `bibtexparser` to the tree named by
VERIF_REPO (default /repo) and refuses to run against anything else.
"""
import logging
import os
import sys
import warnings

REPO = os.path.realpath(os.environ.get("VERIF_REPO", "/repo"))
VERIF = os.path.dirname(os.path.dirname(os.path.abspath(__file__)))

if REPO not in sys.path[:1]:
    sys.path.insert(0, REPO)

# The library logs a warning per failed block; millions of executions would drown in them.
logging.disable(logging.CRITICAL)
warnings.simplefilter("ignore")

import bibtexparser  # noqa: E402

_where = os.path.realpath(bibtexparser.__file__)
if not _where.startswith(REPO + os.sep):
    raise RuntimeError(f"bibtexparser imported from {_where}, expected below {REPO}")
