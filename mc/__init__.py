"""Bounded exhaustive exploration ("model checking" family) of python-bibtexparser.

See /verif/DESIGN.md.  Importing this package binds `bibtexparser` to the tree named by
VERIF_REPO (default /repo) and refuses to run against anything else.
"""
import logging
import os
import sys
import warnings

REPO = os.path.realpath(os.environ.get("VERIF_REPO", "/repo"))
VERIF = os.path.dirname(os.path.dirname(os.path.abspath(__file__)))

if REPO not in sys.path[:1]:
    sys.path.insert(0, REPO)

# The library logs a warning per failed block; millions of executions would drown in them.  But a user may well run
# with DEBUG logging on, and then every log statement of the library (also those behind `isEnabledFor`) is part of the
# program: the library's loggers are set to DEBUG and feed a handler that formats every record and drops it.


REENTRY = {"on": False, "inside": False, "ref": None, "mismatch": None, "calls": 0}
_REENTRY_DOC = '@string{rs = "rv"}\n@misc{r1, author = {Cy Dow and Al Eck}, w = rs, month = 2}\n@misc{r1, dup = 1}\n@broken{r2, a b}\ntext\n@c{r3, q = {4}, q = {5}}\n@d{open, x = {'


def reentry_probe():
    """A complete use of the library, as a logging handler of the application might make it while another call is running:
    parse a document that has failed, duplicate and unterminated blocks, sort and write it."""
    import bibtexparser as bp
    from bibtexparser import middlewares as mw

    lib = bp.parse_string(_REENTRY_DOC, append_middleware=[mw.SeparateCoAuthors(), mw.MonthLongStringMiddleware()])
    text = bp.write_string(lib, prepend_middleware=[mw.MergeCoAuthors(), mw.SortBlocksByTypeAndKeyMiddleware()])
    return ([(type(b).__name__, getattr(b, "key", None), b.start_line, b.raw) for b in lib.blocks], text)


class _FormatAndDrop(logging.Handler):
    formatted = 0

    def emit(self, record):
        try:
            self.format(record)  # lazy %-arguments are interpolated here, as any real handler would
            _FormatAndDrop.formatted += 1
        except Exception:
            pass  # (a record that cannot be formatted is the logging module's business: handleError, no exception)
        if REENTRY["on"] and not REENTRY["inside"]:
            # every log statement (logger, line) of the library: its first 20 records in this process, then every 64th
            site = (record.name, record.lineno)
            n = REENTRY.setdefault("sites", {}).get(site, 0) + 1
            REENTRY["sites"][site] = n
            if n > 20 and n % 64:
                return
            # the handler uses the library itself (environment 'a logging handler that uses the library'): a second call in
            # flight at every log statement of the call that is running
            REENTRY["inside"] = True
            try:
                got = reentry_probe()
                REENTRY["calls"] += 1
                if got != REENTRY["ref"] and REENTRY["mismatch"] is None:
                    REENTRY["mismatch"] = {"observed": repr(got)[:600], "during_record": str(record.msg)[:120], "logger": record.name}
            except BaseException as e:  # noqa
                if REENTRY["mismatch"] is None:
                    REENTRY["mismatch"] = {"observed": f"raised {type(e).__name__}: {e}"[:300], "during_record": str(record.msg)[:120], "logger": record.name}
            finally:
                REENTRY["inside"] = False


_lg = logging.getLogger("bibtexparser")
_lg.setLevel(logging.DEBUG)
_lg.addHandler(_FormatAndDrop())
_lg.propagate = False
warnings.simplefilter("ignore")


def set_logging(on):
    """DEBUG logging of the library on (every log statement runs and is formatted) or off (logging disabled: the fast
    setting).  The engine decides per shard: thorough = on everywhere; quick = on in every fourth shard (costs about 2x
    where it is on); VERIF_LOGGING=on|off overrides."""
    logging.disable(logging.NOTSET if on else logging.CRITICAL)


def logging_for(tier, shard_index):
    o = os.environ.get("VERIF_LOGGING", "")
    if o in ("on", "off"):
        return o == "on"
    return tier == "thorough" or shard_index % 4 == 0


set_logging(True)

import bibtexparser  # noqa: E402

_where = os.path.realpath(bibtexparser.__file__)
if not _where.startswith(REPO + os.sep):
    raise RuntimeError(f"bibtexparser imported from {_where}, expected below {REPO}")
