"""The dialect grammar of DESIGN 3.1 as an explicit reference recogniser, written from the grammar
(not from the splitter): a character-level recursive descent that either rejects a text or returns the
block list the grammar assigns to it.  Plus the projection of a parsed Library to the same form.

Block forms:
  ("entry", type_lower, key, ((fkey, value), ...))     ("string", key, value)
  ("preamble", value_stripped)   ("comment", text)   ("implicit", text)
"""
import re

from bibtexparser.model import (
    Entry,
    ExplicitComment,
    ImplicitComment,
    ParsingFailedBlock,
    Preamble,
    String,
)

BLOCK_START = re.compile(r"@(\w*)[ \t]*\{")
_MARKS = '{}",='


class Reject(Exception):
    pass


def _escaped(text, i):
    """R3: a delimiter immediately preceded by a backslash is literal."""
    return i > 0 and text[i - 1] == "\\"


def _skip_ws(text, i):
    n = len(text)
    while i < n and text[i].isspace():
        i += 1
    return i


def _balanced(text, i):
    """text[i] is the char after an opening '{'.  Return index of the matching '}' (R3 escapes)."""
    depth = 0
    n = len(text)
    while i < n:
        c = text[i]
        if c == "{" and not _escaped(text, i):
            depth += 1
        elif c == "}" and not _escaped(text, i):
            if depth == 0:
                return i
            depth -= 1
        i += 1
    raise Reject("unbalanced braces")


def _quoted(text, i):
    """text[i] is the char after an opening '"'.  Return index of the closing quote: an unescaped
    quote at brace depth 0; braces inside must balance."""
    depth = 0
    n = len(text)
    while i < n:
        c = text[i]
        if not _escaped(text, i):
            if c == "{":
                depth += 1
            elif c == "}":
                if depth == 0:
                    raise Reject("closing brace at depth 0 inside quotes")
                depth -= 1
            elif c == '"' and depth == 0:
                return i
        i += 1
    raise Reject("unterminated quote")


_BARE = re.compile(r'[^\s#,{}"=\\@]+')


def parse_value(text, i):
    """Value ::= Piece ('#' Piece)* ; returns index just after the last piece."""
    while True:
        i = _skip_ws(text, i)
        if i >= len(text):
            raise Reject("value expected")
        c = text[i]
        if c == "{" and not _escaped(text, i):
            i = _balanced(text, i + 1) + 1
        elif c == '"' and not _escaped(text, i):
            i = _quoted(text, i + 1) + 1
        else:
            m = _BARE.match(text, i)
            if m is None:
                raise Reject("piece expected")
            i = m.end()
        end = i
        j = _skip_ws(text, i)
        if j < len(text) and text[j] == "#":
            i = j + 1
            continue
        return end


def is_value(v):
    """Is v (already the text between '=' and the terminator) a well-formed Value?"""
    try:
        end = parse_value(v, 0)
    except Reject:
        return False
    if v[end:].strip() != "":
        return False
    if BLOCK_START.search(v):
        return False
    return True


_KEY = re.compile(r'(?:[^\s{}",=\\]|\\[^\s\\])*', re.S)


def _key(text, i):
    """WS* Key WS*; Key has no whitespace, no unescaped mark and (R3) contains a backslash only
    directly before a non-blank, non-backslash character, so it never ends in one.
    Returns (key, index after trailing ws)."""
    i = _skip_ws(text, i)
    m = _KEY.match(text, i)
    key = m.group(0)
    end = m.end()
    if text[end : end + 1] == "\\":
        # a backslash that is not part of an escape pair: legal only as the key's last character with whitespace
        # after it (then it escapes nothing); directly before a delimiter or doubled it is excluded by R3
        if end + 1 < len(text) and text[end + 1].isspace():
            key += "\\"
            end += 1
        else:
            raise Reject("R3: key with a dangling / doubled backslash")
    return key, _skip_ws(text, end)


def recognise(text):
    """Return the block list, or None if the text is outside the dialect."""
    try:
        return _recognise(text)
    except Reject:
        return None


def _recognise(text):
    blocks = []
    pos = 0
    n = len(text)
    while True:
        m = BLOCK_START.search(text, pos)
        gap_end = m.start() if m else n
        gap = text[pos:gap_end].strip()
        if gap:
            blocks.append(("implicit", gap))
        if m is None:
            return blocks
        typ = m.group(1).lower()
        body = m.end()
        if typ in ("comment", "preamble"):  # (R4 lifted: @commentary, @stringent, @preambles are entry types - F30)
            close = _balanced(text, body)
            inner = text[body:close]
            if BLOCK_START.search(inner):
                raise Reject("R1")
            blocks.append((typ, inner.strip()))
            pos = close + 1
        elif typ == "string":
            key, i = _key(text, body)
            if key == "" or i >= n or text[i] != "=":
                raise Reject("string key / '='")
            vstart = i + 1
            vend = parse_value(text, vstart)
            close = _skip_ws(text, vend)
            if close >= n or text[close] != "}":
                raise Reject("string '}'")
            if BLOCK_START.search(text, body, close):
                raise Reject("R1")
            blocks.append(("string", key, text[vstart:close].strip()))
            pos = close + 1
        else:
            key, i = _key(text, body)
            fields = []
            if i < n and text[i] == "}":
                close = i
            elif i < n and text[i] == ",":
                i += 1
                while True:
                    i = _skip_ws(text, i)
                    if i < n and text[i] == "}":
                        close = i
                        break
                    fkey, i = _key(text, i)
                    if fkey == "" or i >= n or text[i] != "=":
                        raise Reject("field key / '='")
                    vstart = i + 1
                    vend = parse_value(text, vstart)
                    j = _skip_ws(text, vend)
                    if j >= n or text[j] not in ",}":
                        raise Reject("field terminator")
                    fields.append((fkey, text[vstart:j].strip()))
                    if text[j] == ",":
                        i = j + 1
                    else:
                        close = j
                        break
            else:
                raise Reject("entry key terminator")
            if BLOCK_START.search(text, body, close):
                raise Reject("R1")
            blocks.append(("entry", typ, key, tuple(fields)))
            pos = close + 1


def observed(lib):
    """Project a parsed Library to the recogniser's block forms (failed blocks are kept visible)."""
    out = []
    for b in lib.blocks:
        if isinstance(b, ParsingFailedBlock):
            out.append(("failed", type(b).__name__, b.raw))
        elif isinstance(b, Entry):
            out.append(("entry", b.entry_type, b.key, tuple((f.key, f.value) for f in b.fields)))
        elif isinstance(b, String):
            out.append(("string", b.key, b.value))
        elif isinstance(b, Preamble):
            out.append(("preamble", b.value.strip() if isinstance(b.value, str) else b.value))
        elif isinstance(b, ExplicitComment):
            out.append(("comment", b.comment))
        elif isinstance(b, ImplicitComment):
            out.append(("implicit", b.comment))
        else:
            out.append(("?", type(b).__name__))
    return out


def unique_keys(blocks):
    """R5: entry keys / string keys unique per kind, field keys unique per entry."""
    ek, sk = set(), set()
    for b in blocks:
        if b[0] == "entry":
            if b[2] in ek:
                return False
            ek.add(b[2])
            fk = [k for k, _ in b[3]]
            if len(fk) != len(set(fk)):
                return False
        elif b[0] == "string":
            if b[1] in sk:
                return False
            sk.add(b[1])
    return True
