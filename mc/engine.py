"""The explorer: sharded exhaustive enumeration over a process pool, state-graph bookkeeping,
violation signatures, known findings, replay artefacts and evidence files.

Every trace that is counted was executed on the real implementation (stateless exploration),
so `traces_validated_against_impl` is the number of executions.
"""
import collections
import hashlib
import importlib
import itertools
import json
import multiprocessing
import os
import signal
import sys
import time
import traceback

from . import REPO, VERIF

# Evidence is only ever written for the tree the manifest speaks about; runs against scratch trees
# (VERIF_REPO=..., used for mutation trials) keep their output out of the committed files.
_SCRATCH = REPO != "/repo"
EVIDENCE_DIR = os.path.join(VERIF, "evidence") if not _SCRATCH else os.path.join(VERIF, "replays", "scratch-evidence")
REPLAY_DIR = os.path.join(VERIF, "replays") if not _SCRATCH else os.path.join(VERIF, "replays", "scratch")
KNOWN_FILE = os.path.join(VERIF, "known_findings.json")

MAX_WITNESS_PER_SIG = 3
SAMPLE_STRIDE = 211


def h(x):
    """Deterministic (PYTHONHASHSEED=0) 64-bit hash of a canonical (hashable) value."""
    return hash(x)


class Acc:
    """Per-shard accumulator; merged by the parent in shard order."""

    def __init__(self, seed=0, lean=False):
        self.seed = seed
        # lean: the check enumerates cases that are distinct by construction (token sequences, product elements;
        # shards partition the space), so nodes and edges are counted instead of remembered by 64-bit key.
        self.lean = lean
        self.breaker = False  # armed by the shard workers only
        self.evaluations = 0
        self.traces = 0
        # Counters for cases that are distinct by construction (an enumerated token sequence / product element is
        # never produced twice and shards partition the space): counted without keeping 64-bit keys, so that runs
        # of 10^7..10^8 executions stay within memory.  A node of the state graph is then (enumerated case, canonical
        # form reached), i.e. two different inputs reaching an equal library are two nodes.
        self.n_states = 0
        self.n_transitions = 0
        self.n_nontrivial = 0
        self.nontrivial = set()
        self.states = set()
        self.transitions = set()
        self.outcomes = set()
        self.raised = collections.Counter()
        self.counters = collections.Counter()
        self.named_sets = collections.defaultdict(set)
        self.viol = {}
        self.by_sig = collections.Counter()
        self.samples = []
        self.caps = set()
        self.notes = set()
        self.harness_errors = []
        self.maxes = {}

    # -- bookkeeping ------------------------------------------------------------------
    def case(self, sample=None, nontrivial_key=None):
        """Count one enumerated case; `sample` is a thunk/value kept on a deterministic stride."""
        self.evaluations += 1
        if sample is not None and len(self.samples) < 4:
            if (self.evaluations * 7 + self.seed) % SAMPLE_STRIDE == 5:
                self.samples.append(sample() if callable(sample) else sample)
        if self.lean:
            self.n_states += 1  # the enumerated case itself is a node
            if nontrivial_key is not None:
                self.n_nontrivial += 1
        elif nontrivial_key is not None:
            self.nontrivial.add(h(nontrivial_key))

    def trace(self, n=1):
        self.traces += n

    def state(self, key):
        if self.lean:
            self.n_states += 1
            return 0
        k = h(key)
        self.states.add(k)
        return k

    def transition(self, s, action, t):
        if self.lean:
            self.n_transitions += 1
            return
        self.transitions.add(h((s, action, t)))

    def step(self, skey, action, tkey):
        """Record s --action--> t by canonical keys (lean: the source is the current case, already counted)."""
        if self.lean:
            self.n_states += 1
            self.n_transitions += 1
            return 0
        s = self.state(skey)
        t = self.state(tkey)
        self.transitions.add(h((s, action, t)))
        return t

    def outcome(self, key):
        self.outcomes.add(h(key))

    def count(self, name, n=1):
        self.counters[name] += n

    def maxof(self, name, v):
        if v > self.maxes.get(name, float("-inf")):
            self.maxes[name] = v

    def seen(self, setname, key):
        self.named_sets[setname].add(key)

    def cap(self, name):
        self.caps.add(name)

    def exception(self, e, case, where="", size=None):
        """The property promises a result for this case, the implementation raised instead."""
        self.violation(
            {"oracle": "returns_a_result_not_an_exception", "exception": type(e).__name__, "where": where},
            {"case": case, "observed": f"{type(e).__name__}: {str(e)[:200]}", "expected": "the result the property describes (no exception)"},
            size=size,
        )

    def harness_error(self, what):
        if len(self.harness_errors) < 5:
            self.harness_errors.append(what)
        self.counters["harness_errors"] += 1

    def violation(self, sig, witness, size=None):
        """sig: small dict identifying the *kind* of failure (oracle + explaining call site);
        witness: JSON-able dict with at least `case` (replayable), `observed`, `expected`."""
        key = json.dumps(sig, sort_keys=True, default=str)
        self.by_sig[key] += 1
        self.counters["violating_cases"] += 1
        if size is None:
            size = len(json.dumps(witness.get("case"), default=str))
        lst = self.viol.setdefault(key, [])
        if len(lst) < MAX_WITNESS_PER_SIG or size < lst[-1][0]:
            blob = json.dumps(witness, sort_keys=True, default=str)
            if len(blob) > 30000:
                # keep the replayable case, shorten what was observed / expected (some breakages return huge results)
                w = dict(witness)
                for k in list(w):
                    if k != "case":
                        w[k] = repr(w[k])[:2000] + " ...(truncated)"
                blob = json.dumps(w, sort_keys=True, default=str)
            lst.append((size, blob))
            lst.sort()
            del lst[MAX_WITNESS_PER_SIG:]
        if self.breaker and self.counters["violating_cases"] > MAX_VIOLATIONS_PER_SHARD:
            raise TooManyViolations()

    # -- merge -----------------------------------------------------------------------
    def merge(self, o):
        self.evaluations += o.evaluations
        self.traces += o.traces
        self.n_states += o.n_states
        self.n_transitions += o.n_transitions
        self.n_nontrivial += o.n_nontrivial
        self.nontrivial |= o.nontrivial
        self.states |= o.states
        self.transitions |= o.transitions
        self.outcomes |= o.outcomes
        self.raised.update(o.raised)
        self.counters.update(o.counters)
        for k, v in o.named_sets.items():
            self.named_sets[k] |= v
        for k, lst in o.viol.items():
            mine = self.viol.setdefault(k, [])
            mine.extend(lst)
            mine.sort()
            del mine[MAX_WITNESS_PER_SIG:]
        self.by_sig.update(o.by_sig)
        self.samples.extend(o.samples)
        self.caps |= o.caps
        self.notes |= o.notes
        self.harness_errors.extend(o.harness_errors)
        del self.harness_errors[5:]
        for k, v in o.maxes.items():
            self.maxof(k, v)


# ------------------------------------------------------------------------------------------
# enumerators


def seq_shards(alphabet, max_len, prefix_len=2, min_len=0):
    """Shards for all sequences over `alphabet` of length min_len..max_len: (length, prefix) pairs.
    Sequences shorter than or equal to prefix_len form one shard each length."""
    out = []
    for n in range(min_len, max_len + 1):
        if n <= prefix_len:
            out.append((n, ()))
        else:
            for p in itertools.product(range(len(alphabet)), repeat=prefix_len):
                out.append((n, p))
    return out


def seq_iter(alphabet, shard):
    """All sequences (tuples of tokens) of the shard, in simplest-first (lexicographic) order."""
    n, prefix = shard
    pre = tuple(alphabet[i] for i in prefix)
    for rest in itertools.product(alphabet, repeat=n - len(prefix)):
        yield pre + rest


def seq_count(alphabet, max_len, min_len=0):
    return sum(len(alphabet) ** n for n in range(min_len, max_len + 1))


def chunks(seq, n):
    """Split a list into n nearly equal contiguous shards (for catalogue-style spaces)."""
    seq = list(seq)
    k = max(1, (len(seq) + n - 1) // n)
    return [seq[i : i + k] for i in range(0, len(seq), k)]


# ------------------------------------------------------------------------------------------
# running


class ShardTimeout(BaseException):
    pass


class TooManyViolations(BaseException):
    """Circuit breaker: a tree that breaks a property on (almost) every case is reported after the first few
    thousand cases of a shard; going on only costs time (some breakages make every further call slower)."""


MAX_VIOLATIONS_PER_SHARD = 300


def _shard_alarm(signum, frame):
    raise ShardTimeout()


def _worker(args):
    modname, idx, shard, tier, seed = args
    mod = importlib.import_module(modname)
    acc = Acc(seed, lean=getattr(mod, "LEAN", False))
    acc.breaker = True
    from . import logging_for, set_logging

    on = logging_for(tier, idx)
    set_logging(on)
    acc.counters["shards_run_with_debug_logging_on" if on else "shards_run_with_logging_disabled"] += 1
    t0 = time.time()
    limit = int(os.environ.get("VERIF_SHARD_TIMEOUT", "3600"))
    own_watchdog = getattr(mod, "OWN_WATCHDOG", False)
    if not own_watchdog:
        signal.signal(signal.SIGALRM, _shard_alarm)
        signal.alarm(limit)
    try:
        try:
            mod.run_shard(shard, tier, acc)
        finally:
            if not own_watchdog:
                signal.alarm(0)
    except TooManyViolations:
        acc.cap(f"shard_stopped_after_{MAX_VIOLATIONS_PER_SHARD}_violating_cases")
    except ShardTimeout:
        # no verdict: the exploration of this shard is incomplete (reported as a cap, exhaustive=false)
        acc.cap(f"shard_timeout_{limit}s:{shard!r}"[:120])
    except BaseException as e:
        if not _escaped_library_exception(e, acc, shard, tier):
            # a crash of the harness itself, never a verdict
            acc.harness_error(f"shard {idx} {shard!r}: {type(e).__name__}: {e}\n{traceback.format_exc()[-1500:]}")
    acc.counters["shard_cpu_s_x1000"] += int((time.time() - t0) * 1000)
    from . import REENTRY

    if REENTRY["on"]:
        acc.counters["calls_made_from_the_logging_handler"] += REENTRY["calls"]
        REENTRY["calls"] = 0
        if REENTRY["mismatch"] is not None:
            mm, REENTRY["mismatch"] = REENTRY["mismatch"], None
            try:
                acc.violation(
                    {"oracle": "call_made_from_a_logging_handler_gives_what_it_gives_alone", "logger": mm["logger"]},
                    {"case": {"_shard": _listify(shard), "_tier": tier}, "observed": mm["observed"], "during_record": mm["during_record"], "expected": repr(REENTRY["ref"])[:600]},
                )
            except TooManyViolations:
                pass
    return idx, acc


def _escaped_library_exception(e, acc, shard, tier):
    """An exception RAISED INSIDE the library under test that no oracle of the check caught: every property here promises
    results (or named exceptions the checks expect where they occur), so this is reported as a violation of its own
    kind - replayable by shard - instead of a harness error without verdict.  Anything raised in the harness is not."""
    if isinstance(e, (KeyboardInterrupt, SystemExit, MemoryError)):
        return False
    tb = traceback.extract_tb(e.__traceback__)
    lib_dir = os.path.join(os.path.realpath(REPO), "bibtexparser") + os.sep
    if not tb or not os.path.realpath(tb[-1].filename).startswith(lib_dir):
        return False
    try:
        acc.violation(
            {"oracle": "library_exception_escaped_every_oracle", "exception": type(e).__name__, "where": tb[-1].name},
            {"case": {"_shard": _listify(shard), "_tier": tier}, "observed": "".join(traceback.format_exception_only(type(e), e)).strip()[:300] + " @ " + f"{os.path.basename(tb[-1].filename)}:{tb[-1].lineno}", "expected": "a result (or an exception the check expects there)"},
        )
    except TooManyViolations:
        pass
    return True


def _listify(x):
    return [_listify(i) for i in x] if isinstance(x, (tuple, list)) else x


def _tuplify(x):
    return tuple(_tuplify(i) for i in x) if isinstance(x, (tuple, list)) else x


def load_known():
    try:
        with open(KNOWN_FILE) as f:
            return json.load(f)["findings"]
    except FileNotFoundError:
        return []


def match_known(pid, sig, known):
    for k in known:
        if k.get("property") != pid or k.get("status") != "known":
            continue
        m = k.get("match", {})
        if all(sig.get(a) == b for a, b in m.items()):
            return k
    return None


def write_replay(pid, sig, witness, mod):
    os.makedirs(os.path.join(REPLAY_DIR, pid), exist_ok=True)
    body = {
        "property": pid,
        "signature": sig,
        "witness": witness,
        "repo": REPO,
        "replay_cmd": f"./check {pid} --replay <this file>",
    }
    ut = getattr(mod, "unit_test", None)
    if ut is not None:
        try:
            body["unit_test"] = ut(witness["case"])
        except Exception as e:  # pragma: no cover
            body["unit_test_error"] = repr(e)
    blob = json.dumps(body, indent=1, sort_keys=True, default=str)
    name = hashlib.sha1(json.dumps([sig, witness.get("case")], sort_keys=True, default=str).encode()).hexdigest()[:16]
    path = os.path.join(REPLAY_DIR, pid, name + ".json")
    with open(path, "w") as f:
        f.write(blob)
    return path


def run_check(modname, tier, seed, procs=None):
    mod = importlib.import_module(modname)
    pid = mod.ID
    t0 = time.time()
    # replay artefacts of earlier runs of this property are stale by definition
    rdir = os.path.join(REPLAY_DIR, pid)
    if os.path.isdir(rdir):
        for fn in os.listdir(rdir):
            if fn.endswith(".json"):
                os.unlink(os.path.join(rdir, fn))
    shards = list(mod.shards(tier))
    # rotate shard order by seed: affects scheduling and printed samples only, never what is explored
    order = list(range(len(shards)))
    if shards:
        r = seed % len(shards)
        order = order[r:] + order[:r]
    jobs = [(modname, i, shards[i], tier, seed) for i in order]
    procs = procs or int(os.environ.get("VERIF_PROCS", "16"))
    results = []
    env_pending = start_environments(mod, modname, tier, seed)  # (fresh interpreters, running beside the pool)
    pre = getattr(mod, "explore", None)
    pre_acc = None
    if pre is not None:
        # checks that need a search the shard model cannot express (BFS with global deduplication)
        pre_acc = Acc(seed)
        try:
            pre(tier, seed, pre_acc, procs)
        except BaseException as e:
            pre_acc.harness_error(f"explore: {type(e).__name__}: {e}\n{traceback.format_exc()[-1500:]}")
    if procs <= 1 or len(jobs) <= 1:
        results = [_worker(j) for j in jobs]
    else:
        ctx = multiprocessing.get_context("fork")
        with ctx.Pool(min(procs, len(jobs))) as pool:
            for r in pool.imap_unordered(_worker, jobs, chunksize=1):
                results.append(r)
    results.sort(key=lambda r: r[0])
    acc = Acc(seed)
    if pre_acc is not None:
        acc.merge(pre_acc)
    for _, a in results:
        acc.merge(a)
    env_info = finish_environments(env_pending, acc)

    known = load_known()
    reported = []
    known_seen = {}
    for key in sorted(acc.viol):
        sig = json.loads(key)
        k = match_known(pid, sig, known)
        if k is not None:
            known_seen[k["id"]] = known_seen.get(k["id"], 0) + acc.by_sig[key]
            continue
        size, wj = acc.viol[key][0]
        path = write_replay(pid, sig, json.loads(wj), mod)
        reported.append((sig, path, acc.by_sig[key]))

    for k in known:
        if k.get("property") == pid and k.get("status") == "known" and k["id"] in known_seen:
            print(f"KNOWN-FINDING: property={pid} {k['id']}: {k['what']} ({known_seen[k['id']]} cases)")

    wall = time.time() - t0
    extra = {}
    fin = getattr(mod, "finish", None)
    if fin is not None:
        extra = fin(acc, tier) or {}
    harness_bad = bool(acc.harness_errors)
    samples = acc.samples
    if samples:
        r = seed % len(samples)
        samples = (samples[r:] + samples[:r])[:8]
    if not samples:
        samples = list(getattr(mod, "STATIC_SAMPLES", []))[:3]
    coverage = {
        "states": len(acc.states) + acc.n_states,
        "transitions": len(acc.transitions) + acc.n_transitions,
        "traces_validated_against_impl": acc.traces,
        "samples": samples,
        "evaluations": acc.evaluations,
        "distinct_nontrivial": len(acc.nontrivial) + acc.n_nontrivial,
        "state_counting": (
            "lean: cases are distinct by construction (enumerated token sequences / product elements, shards partition the space); "
            "states = enumerated cases + result nodes reached from them, transitions = actions executed, non-trivial = cases meeting the rule; "
            "counted, not remembered by key"
            if getattr(mod, "LEAN", False)
            else "exact: distinct canonical states / (state, action, state') triples / non-trivial keys, de-duplicated globally by 64-bit key"
        ),
        "rule": mod.RULE + (" (Distinctness is by enumerated case: each token sequence / product element is generated exactly once.)" if getattr(mod, "LEAN", False) else ""),
        "distinct_outcomes": len(acc.outcomes),
        "exhaustive": (not acc.caps) and not harness_bad,
        "bounds": mod.bounds(tier) if hasattr(mod, "bounds") else {},
        "shards": len(shards),
        "caps_hit": sorted(acc.caps),
        "raised": dict(acc.raised),
        "counters": {k: v for k, v in sorted(acc.counters.items()) if k != "shard_cpu_s_x1000"},
        "maxima": dict(sorted(acc.maxes.items())),
        "cpu_s": round(acc.counters["shard_cpu_s_x1000"] / 1000.0, 1),
        "named_set_sizes": {k: len(v) for k, v in sorted(acc.named_sets.items())},
        "known_findings_seen": known_seen,
        "by_signature": {k: v for k, v in sorted(acc.by_sig.items())[:40]},
        "harness_errors": acc.harness_errors,
        "explanation": getattr(mod, "EXPLANATION", ""),
    }
    if env_info:
        coverage["environments"] = env_info
    coverage.update(extra)
    evidence = {
        "property_id": pid,
        "tier": tier,
        "seed": seed,
        "level": "model_checking",
        "coverage": coverage,
        "assumptions": list(getattr(mod, "ASSUMPTIONS", [])) + [f"bibtexparser imported from {REPO}"],
        "wall_s": round(wall, 2),
        "violations": len(reported),
    }
    os.makedirs(EVIDENCE_DIR, exist_ok=True)
    with open(os.path.join(EVIDENCE_DIR, pid + ".json"), "w") as f:
        json.dump(evidence, f, indent=1, sort_keys=True, default=str)
        f.write("\n")

    print(
        f"{pid} tier={tier} seed={seed} evaluations={acc.evaluations} traces={acc.traces} "
        f"states={len(acc.states) + acc.n_states} transitions={len(acc.transitions) + acc.n_transitions} nontrivial={len(acc.nontrivial) + acc.n_nontrivial} "
        f"outcomes={len(acc.outcomes)} caps={sorted(acc.caps)} wall={wall:.1f}s cpu={coverage['cpu_s']}s"
    )
    for k, v in sorted(acc.counters.items()):
        if k != "shard_cpu_s_x1000":
            print(f"  counter {k}={v}")
    if acc.raised:
        print(f"  raised (inconclusive traces, not verdicts): {dict(acc.raised)}")
    for sig, path, n in reported:
        print(f"VIOLATION property={pid} replay={path}")
        print(f"  signature={json.dumps(sig, sort_keys=True)} cases={n}")
    if harness_bad:
        # A harness crash is my bug, not a verdict on the code: loud, non-zero, but no VIOLATION line.
        print("HARNESS-ERROR (no verdict):")
        for e in acc.harness_errors:
            print("  " + e.replace("\n", "\n  "))
        # violations found elsewhere in the run stand (exit 1); a crash with no violation at all is exit 2
        return 1 if reported else 2
    return 1 if reported else 0


# ------------------------------------------------------------------------------------------
# environments: the answers the interpreter gives that are not arguments of any call (DESIGN 10.24)

ENVIRONMENTS = [
    # label, extra environment variables, interpreter flags
    ("hash seed 1", {"PYTHONHASHSEED": "1"}, []),
    ("hash seed 2", {"PYTHONHASHSEED": "2"}, []),
    ("hash seed 3", {"PYTHONHASHSEED": "3"}, []),
    ("hash seed 4", {"PYTHONHASHSEED": "4"}, []),
    ("hash seed 5", {"PYTHONHASHSEED": "5"}, []),
    ("hash seed 6", {"PYTHONHASHSEED": "6"}, []),
    ("hash seed 7", {"PYTHONHASHSEED": "7"}, []),
    ("hash seed 8", {"PYTHONHASHSEED": "8"}, []),
    ("hash seed 9, C locale without UTF-8 mode", {"PYTHONHASHSEED": "9", "LC_ALL": "C", "LANG": "C", "PYTHONUTF8": "0", "PYTHONCOERCECLOCALE": "0"}, []),
    ("hash seed 10, submodules imported in reverse order, collector off", {"PYTHONHASHSEED": "10", "VERIF_ENV_PREPARE": "imports-reversed gc-off"}, []),
    ("hash seed 11, collector eager, python -O", {"PYTHONHASHSEED": "11", "VERIF_ENV_PREPARE": "gc-eager"}, ["-O"]),
    ("hash seed 12, integer-string limit lowered to 640 digits after import", {"PYTHONHASHSEED": "12", "VERIF_ENV_PREPARE": "intmax-640-after-import"}, []),
    ("hash seed 13, a logging handler that uses the library at every record", {"PYTHONHASHSEED": "13", "VERIF_ENV_PREPARE": "reentrant-logging", "VERIF_LOGGING": "on"}, []),
]


def _run_one_environment(args):
    import pickle
    import subprocess
    import tempfile

    modname, tier, seed, shards, (label, extra, flags) = args
    fd, out = tempfile.mkstemp(prefix="verif-env-", suffix=".pkl", dir=os.environ.get("VERIF_TMP", "/var/tmp"))
    os.close(fd)
    try:
        env = dict(os.environ)
        env.update(extra)
        env["VERIF_REPO"] = REPO
        env["VERIF_ENVS"] = "0"
        r = subprocess.run(
            [sys.executable] + list(flags) + ["-m", "mc.envworker", modname, tier, str(seed), label, out],
            input=json.dumps([_listify(s) for s in shards]), capture_output=True, text=True, env=env, cwd=VERIF, timeout=3600,
        )
        if r.returncode != 0:
            return label, None, (r.stderr.strip().splitlines() or ["exit %d" % r.returncode])[-1][:300]
        with open(out, "rb") as f:
            return label, pickle.load(f), None
    except Exception as e:
        return label, None, repr(e)
    finally:
        try:
            os.unlink(out)
        except OSError:
            pass


def start_environments(mod, modname, tier, seed):
    """A check may name some of its shards ENV_SHARDS(tier) - its broad, cheap families.  Those are run again, each in a
    fresh interpreter per environment of ENVIRONMENTS (hash seeds, a C locale without UTF-8 mode, another import order,
    other collector settings, python -O): the same oracles judge every case there.  A violation found there carries the
    environment in its signature and in its witness, and is replayed in that environment."""
    fn = getattr(mod, "ENV_SHARDS", None)
    if fn is None or os.environ.get("VERIF_ENVS", "1") == "0":
        return None
    shards = list(fn(tier))
    if not shards:
        return None
    from concurrent.futures import ThreadPoolExecutor

    jobs = [(modname, tier, seed, shards, e) for e in ENVIRONMENTS]
    ex = ThreadPoolExecutor(len(jobs))
    return ex, [ex.submit(_run_one_environment, j) for j in jobs], len(shards)


def finish_environments(pending, acc):
    if pending is None:
        return None
    ex, futures, nshards = pending
    results = [f.result() for f in futures]
    ex.shutdown()
    info = {"shards_per_environment": nshards, "environments": [e[0] for e in ENVIRONMENTS], "cases_per_environment": {}}
    for (label, accs, err), envspec in zip(results, ENVIRONMENTS):
        if accs is None:
            acc.harness_error(f"environment {label!r}: {err}")
            continue
        n = 0
        for a in accs:
            n += a.evaluations
            acc.counters["environment_cases"] += a.evaluations
            acc.counters["calls_made_from_the_logging_handler"] += a.counters.get("calls_made_from_the_logging_handler", 0)
            acc.traces += a.traces
            acc.raised.update(a.raised)
            acc.caps |= a.caps
            acc.harness_errors.extend(a.harness_errors)
            del acc.harness_errors[5:]
            for key, lst in a.viol.items():
                sig = json.loads(key)
                sig["environment"] = label
                k2 = json.dumps(sig, sort_keys=True, default=str)
                mine = acc.viol.setdefault(k2, [])
                for size, blob in lst:
                    w = json.loads(blob)
                    w["environment"] = {"label": label, "variables": envspec[1], "flags": envspec[2]}
                    mine.append((size, json.dumps(w, sort_keys=True, default=str)))
                mine.sort()
                del mine[MAX_WITNESS_PER_SIG:]
                acc.by_sig[k2] += a.by_sig[key]
        info["cases_per_environment"][label] = n
    return info


def run_replay(modname, path):
    mod = importlib.import_module(modname)
    with open(path) as f:
        body = json.load(f)
    case = body["witness"]["case"]
    envw = body["witness"].get("environment")
    if envw and os.environ.get("VERIF_ENVS", "1") != "0":
        # found in a particular environment: replayed there (a fresh interpreter with its variables and flags)
        import subprocess

        env = dict(os.environ)
        env.update(envw.get("variables", {}))
        env["VERIF_ENVS"] = "0"
        env["VERIF_REPO"] = REPO
        return subprocess.run([sys.executable] + list(envw.get("flags", [])) + ["-m", "mc.run", mod.ID, "--replay", path], env=env, cwd=VERIF).returncode
    from . import set_logging

    # the case is replayed in both logging environments of a full run (the library's DEBUG logging on / logging
    # disabled), twice each; what either reproduces counts
    found = []
    for logging_on in (True, False):
        set_logging(logging_on)
        rc, sigs = _replay_once(mod, case, path)
        if rc == 2:
            return 2
        found += [s for s in sigs if s not in found]
    set_logging(True)
    return _report_replay(mod, path, found)


def _replay_once(mod, case, path):
    sigs = []
    for _ in range(2):
        acc = Acc(0)
        if "_shard" in case:  # (an exception that escaped every oracle: the shard is the case)
            try:
                mod.run_shard(_tuplify(case["_shard"]), case.get("_tier", "quick"), acc)
            except BaseException as e:
                if not _escaped_library_exception(e, acc, _tuplify(case["_shard"]), case.get("_tier", "quick")):
                    raise
        else:
            mod.replay(case, acc)
        sigs.append(sorted(acc.viol))
    if sigs[0] != sigs[1]:
        print(f"REPLAY-NONDETERMINISTIC {path}: {sigs}")
        return 2, []
    return 0, sigs[0]


def _report_replay(mod, path, found):
    known = load_known()
    fresh, listed = [], []
    for s in found:
        k = match_known(mod.ID, json.loads(s), known)
        (listed if k else fresh).append((s, k))
    for s, k in listed:  # (as in a full run: a recorded finding is named, it is not a violation)
        print(f"KNOWN-FINDING: property={mod.ID} {k['id']}: {k.get('what', '')[:160]}")
    if fresh:
        print(f"VIOLATION property={mod.ID} replay={path}")
        for s, _ in fresh:
            print(f"  signature={s}")
        return 1
    print(f"replay {path}: {'only recorded findings reproduced' if listed else 'not reproduced'} on {REPO}")
    return 0


# ------------------------------------------------------------------------------------------
# explicit-state breadth-first search over operation histories on live objects (DESIGN 2.2)
#
# A state is the shortest history reaching it; successors are produced by rebuilding fresh
# objects and replaying history + [op] on the real code.  Level-synchronous, frontier
# partitioned over the pool, deduplicated by canonical state key in the parent (in
# deterministic chunk order, so the result does not depend on worker scheduling).


def _bfs_worker(args):
    modname, tier, seed, idx, hists = args
    mod = importlib.import_module(modname)
    acc = Acc(seed)
    succ = []
    t0 = time.time()
    try:
        for hist in hists:
            for key, new_hist in mod.expand(hist, tier, acc):
                succ.append((key, new_hist))
    except BaseException as e:
        acc.harness_error(f"bfs chunk {idx}: {type(e).__name__}: {e}\n{traceback.format_exc()[-1500:]}")
    acc.counters["shard_cpu_s_x1000"] += int((time.time() - t0) * 1000)
    return idx, acc, succ


def bfs(modname, tier, seed, acc, procs=None, max_states=None):
    """Close the reachable state graph.  mod.initial(tier) -> [(key, history)], mod.expand(hist, tier, acc)
    yields (key, history+[op]) for every enabled op (running the oracles on the way)."""
    mod = importlib.import_module(modname)
    procs = procs or int(os.environ.get("VERIF_PROCS", "16"))
    seen = {}
    frontier = []
    for key, hist in mod.initial(tier, acc):
        if key not in seen:
            seen[key] = len(hist)
            frontier.append(hist)
    depth = 0
    ctx = multiprocessing.get_context("fork")
    with ctx.Pool(procs) as pool:
        while frontier:
            depth += 1
            per = max(1, min(200, (len(frontier) + procs * 4 - 1) // (procs * 4)))
            jobs = [(modname, tier, seed, i, frontier[i : i + per]) for i in range(0, len(frontier), per)]
            results = list(pool.imap_unordered(_bfs_worker, jobs, chunksize=1))
            results.sort(key=lambda r: r[0])
            nxt = []
            for _, a, succ in results:
                acc.merge(a)
                for key, hist in succ:
                    if key not in seen:
                        seen[key] = len(hist)
                        nxt.append(hist)
            acc.maxof("bfs_depth", depth)
            if max_states is not None and len(seen) > max_states:
                acc.cap(f"bfs_max_states_{max_states}")
                break
            frontier = nxt
    acc.counters["bfs_states"] = len(seen)
    return seen
