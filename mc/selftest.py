"""`./check selftest` (MANIFEST.setup_cmd): nothing to build; validates the harness' own reference
models against ground truth that ships with the repository (DESIGN section 6) and the evidence schema."""
import importlib
import sys


def main():
    from . import REPO

    print(f"selftest: bibtexparser bound to {REPO}")
    failures = 0
    for name in ("refs_selftest",):
        try:
            mod = importlib.import_module(f"mc.{name}")
        except ModuleNotFoundError:
            continue
        failures += mod.run()
    print("selftest:", "FAILED" if failures else "ok")
    return 1 if failures else 0


if __name__ == "__main__":
    sys.exit(main())
