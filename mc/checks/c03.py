"""C03 — block raw texts tile the source; line numbers are true (DESIGN 4/C03)."""
import re

from bibtexparser.model import DuplicateFieldKeyBlock, Entry, ParsingFailedBlock
import bibtexparser
from bibtexparser.splitter import Splitter

from .. import bigdocs, spaces
from ..engine import seq_iter, seq_shards

ID = "C03"
LEAN = True  # cases are distinct by construction; see engine.Acc
RULE = (
    "every token sequence over the 17-token splitter alphabet up to the length bound, every combination of "
    "<=k single-token edits of 6 realistic base documents, and layout families of well-formed entries "
    "(whitespace/newlines at every gap); each text is split by the real Splitter and walked with a cursor. "
    "Non-trivial = text yields >=2 blocks or a failed block (distinct by text)."
)
ASSUMPTIONS = [
    "whitespace is str.isspace(); a line is delimited by '\\n' only (DESIGN 3.4)",
    "a field is re-located inside the entry's raw text by its verbatim key and value; if that fails the "
    "field-line clause is skipped for that entry (counted as field_locate_failed), tiling still decided",
]
STATIC_SAMPLES = ["@a{k, t = {b@c{d}}}", "% x\\\n@a{k}"]


def bounds(tier):
    return {
        "alphabet": spaces.SIGMA_DOC,
        "max_len": 5 if tier == "quick" else 6,
        "core_alphabet_max_len": None if tier == "quick" else 7,
        "extended_alphabet": spaces.SIGMA_DOC_EXT[len(spaces.SIGMA_DOC):],
        "extended_alphabet_max_len": 3 if tier == "quick" else 4,
        "deviation_bound": 1 if tier == "quick" else 2,
        "base_docs": len(spaces.BASE_DOCS),
        "layout_family": True,
    }


def shards(tier):
    out = [("seq", s) for s in seq_shards(spaces.SIGMA_DOC, 5 if tier == "quick" else 6)]
    if tier == "thorough":
        out += [("core", s) for s in seq_shards(spaces.SIGMA_DOC_CORE, 7, min_len=7)]
    out += [("ext", s) for s in seq_shards(spaces.SIGMA_DOC_EXT, 3 if tier == "quick" else 4)]
    out += [("mini", s) for s in seq_shards(spaces.SIGMA_DOC_MINI, 3 if tier == "quick" else 5)]
    out += spaces.deviation_shards(len(spaces.BASE_DOCS), 1 if tier == "quick" else 2)
    out += [("layout", i) for i in range(len(LAYOUT_WS))]
    out += [("longcomment", 0)]
    out += [("big", n, v) for n in (bigdocs.SIZES_QUICK if tier == "quick" else bigdocs.SIZES_THOROUGH) for v in (0, 1)]
    return out


# -- layout family: one entry with fields, every gap filled from a whitespace set -----------------
LAYOUT_WS = ["", " ", "\n", "\r\n", " \n ", "\n\n"]
_LAYOUT_TEMPLATES = [
    # gaps are marked by \0
    "\0@article\0{\0key\0,\0a\0=\0{x}\0,\0bb\0=\0\"y\"\0}\0",
    "%c\0@book{k,\0t\0=\0{l1\nl2}\0,\0u\0=\0v\0#\0\"w\"\0,\0}\0tail",
    "@string{\0s\0=\0\"v\"\0}\0@preamble{\0\"p\"\0}\0@comment{\0c\0}\0@m{\0k\0}",
]


def layout_iter(i):
    """Template x (all gaps = ws_i; each single gap = ws_i, others ' '; each pair of adjacent gaps)."""
    w = LAYOUT_WS[i]
    for t in _LAYOUT_TEMPLATES:
        parts = t.split("\0")
        n = len(parts) - 1
        yield w.join(parts)
        for g in range(n):
            for other in ("", " ", "\n"):
                fill = [other] * n
                fill[g] = w
                yield "".join(p + f for p, f in zip(parts, fill + [""]))
        for g in range(n - 1):
            fill = [" "] * n
            fill[g] = w
            fill[g + 1] = w
            yield "".join(p + f for p, f in zip(parts, fill + [""]))


# -- the oracle -----------------------------------------------------------------------------------
_HEAD = re.compile(r"@\w*[ \t]*\{")
_WS = re.compile(r"\s*")


def field_lines(entry):
    """Yield (field, expected_line or None) by re-locating each field in entry.raw; None if not locatable."""
    raw = entry.raw
    m = _HEAD.match(raw)
    if m is None:
        return None
    pos = m.end()
    km = re.compile(r"\s*" + re.escape(entry.key) + r"\s*").match(raw, pos)
    if km is None:
        return None
    pos = km.end()
    out = []
    if not entry.fields:
        return out
    if raw[pos : pos + 1] != ",":
        return None
    pos += 1
    for f in entry.fields:
        if not isinstance(f.value, str):
            return None
        fm = re.compile(r"(\s*)" + re.escape(f.key) + r"(\s*)=\s*" + re.escape(f.value) + r"\s*").match(raw, pos)
        if fm is None:
            return None
        key_end = fm.end(1) + len(f.key)  # offset just after the key's last character
        eq = fm.end(2)  # offset of '='
        key_last = key_end - 1 if f.key else fm.end(1)
        line_key = raw.count("\n", 0, max(key_last, 0))
        line_eq = raw.count("\n", 0, eq)
        out.append((f, entry.start_line + line_eq if line_key == line_eq else None))
        pos = fm.end()
        nxt = raw[pos : pos + 1]
        if nxt == ",":
            pos += 1
        elif nxt == "}":
            pass
        else:
            return None
    return out


def judge(text, lib, acc, case):
    """Cursor walk.  Returns True if everything held."""
    cur = 0
    n = len(text)
    ok = True
    blocks = lib.blocks
    for idx, b in enumerate(blocks):
        raw = b.raw
        if not isinstance(raw, str) or raw == "":
            acc.violation(
                {"oracle": "raw_is_nonempty_str", "block": type(b).__name__},
                {"case": case, "observed": repr(raw), "expected": "non-empty str", "block_index": idx},
            )
            return False
        while cur < n and text[cur].isspace():
            cur += 1
        if not text.startswith(raw, cur):
            # classify: overlap/duplicate (raw occurs earlier), dropped characters (raw occurs later), or altered
            later = text.find(raw, cur)
            earlier = text.rfind(raw, 0, cur + len(raw) - 1) if cur else -1
            if later >= 0:
                kind = "dropped"
                lost = text[cur:later]
            elif earlier >= 0:
                kind = "overlap_or_duplicate"
                lost = text[earlier:cur]
            else:
                kind = "raw_not_in_source"
                lost = ""
            prev = blocks[idx - 1] if idx else None
            acc.violation(
                {
                    "oracle": "tiling",
                    "kind": kind,
                    "block": type(b).__name__,
                    "prev": type(prev).__name__ if prev is not None else None,
                    "prev_reason": _reason(prev),
                },
                {
                    "case": case,
                    "observed": [x.raw for x in blocks],
                    "expected": "raw texts tile the input (only whitespace between them)",
                    "block_index": idx,
                    "cursor": cur,
                    "affected_text": lost,
                },
            )
            return False
        line = text.count("\n", 0, cur)
        if b.start_line != line:
            acc.violation(
                {"oracle": "block_start_line", "block": type(b).__name__, "delta": _delta(b.start_line, line)},
                {"case": case, "observed": b.start_line, "expected": line, "block_index": idx, "raw": raw},
            )
            ok = False
        # field lines
        e = b
        if isinstance(b, ParsingFailedBlock):
            e = b.ignore_error_block if isinstance(b, DuplicateFieldKeyBlock) or isinstance(b.ignore_error_block, Entry) else None
        if isinstance(e, Entry) and e.raw == raw:
            fl = field_lines(e)
            if fl is None and e.fields:
                # an entry that went through middleware (values stripped or resolved, keys lower-cased): its fields are
                # paired by position with those of the same raw text split on its own, which can be located
                try:
                    alone = Splitter(raw).split().blocks
                    ref = alone[0] if len(alone) == 1 else None
                    if isinstance(ref, DuplicateFieldKeyBlock):
                        ref = ref.ignore_error_block
                    rl = field_lines(ref) if isinstance(ref, Entry) else None
                    if rl is not None and [f.key.lower() for f, _ in rl] == [f.key.lower() for f in e.fields]:
                        fl = [(f, None if exp is None else exp - ref.start_line + e.start_line) for f, (_, exp) in zip(e.fields, rl)]
                        acc.count("field_lines_paired_by_position")
                except Exception:
                    fl = None
            if fl is None:
                acc.count("field_locate_failed")
            else:
                for f, exp in fl:
                    if exp is None:
                        acc.count("field_key_and_eq_on_different_lines")
                        continue
                    acc.count("field_lines_checked")
                    # e.start_line may itself be wrong (reported above); use the true line of the block
                    exp_true = exp - e.start_line + line
                    if f.start_line != exp_true:
                        acc.violation(
                            {"oracle": "field_start_line", "delta": _delta(f.start_line, exp_true)},
                            {"case": case, "observed": f.start_line, "expected": exp_true, "field": f.key, "raw": raw},
                        )
                        ok = False
        cur += len(raw)
    rest = text[cur:]
    if rest.strip() != "":
        last = blocks[-1] if blocks else None
        acc.violation(
            {
                "oracle": "tiling",
                "kind": "dropped_tail",
                "block": None,
                "prev": type(last).__name__ if last is not None else None,
                "prev_reason": _reason(last),
            },
            {"case": case, "observed": [x.raw for x in blocks], "expected": "nothing but whitespace after the last raw", "affected_text": rest},
        )
        return False
    return ok


def _delta(obs, exp):
    try:
        d = obs - exp
    except TypeError:
        return "non-int"
    return "minus" if d < 0 else "plus"


def _reason(b):
    if isinstance(b, ParsingFailedBlock):
        r = getattr(b.error, "abort_reason", None)
        if r:
            return re.sub(r"found .*", "found _", re.sub(r"`[^`]*`", "`_`", r), flags=re.S)[:60]
        return type(b.error).__name__
    return None


_STACK = []


def _reused_stack():
    """A user-defined parse stack whose middleware instances are used for every call of this process."""
    if not _STACK:
        from bibtexparser import middlewares as mw

        _STACK.extend([mw.ResolveStringReferencesMiddleware(), mw.RemoveEnclosingMiddleware(), mw.NormalizeFieldKeys()])
    return _STACK


def check_text(text, acc, case=None, route="split"):
    case = case if case is not None else {"text": text}
    if route != "split":
        case = dict(case, route=route)
    acc.trace()
    try:
        if route == "split":
            lib = Splitter(text).split()
        elif route == "parse_string":
            lib = bibtexparser.parse_string(text)
        else:
            lib = bibtexparser.parse_string(text, parse_stack=_reused_stack())
    except Exception as e:  # C01's subject; here the trace is inconclusive
        acc.raised[type(e).__name__] += 1
        acc.case()
        return
    blocks = lib.blocks
    sig = tuple((type(b).__name__, b.start_line, b.raw) for b in blocks)
    nontrivial = len(blocks) >= 2 or any(isinstance(b, ParsingFailedBlock) for b in blocks)
    acc.case(sample=lambda: {"text": text, "blocks": [[s[0], s[1], s[2]] for s in sig]}, nontrivial_key=text if nontrivial else None)
    acc.step(("text", text), "split", sig)
    acc.outcome(tuple(s[0] for s in sig))
    judge(text, lib, acc, case)


def big_texts(n, v):
    """The size-n document, 60 truncations of it and 60 single-character deletions / insertions at evenly spread
    offsets (so that the damage lands in every kind of position: key, value, comment, between blocks)."""
    text, _ = bigdocs.document(n, v)
    yield text
    L = len(text)
    for k in range(1, 61):
        cut = (L * k) // 61
        yield text[:cut]
        yield text[:cut] + text[cut + 1 :]
        yield text[:cut] + '{"@}'[k % 4] + text[cut:]


def run_shard(shard, tier, acc):
    _STACK.clear()  # long-lived within a shard, not across shards (a worker process runs many shards)
    kind = shard[0]
    if kind == "seq":
        for toks in seq_iter(spaces.SIGMA_DOC, shard[1]):
            check_text("".join(toks), acc)
    elif kind == "core":
        for toks in seq_iter(spaces.SIGMA_DOC_CORE, shard[1]):
            check_text("".join(toks), acc)
    elif kind == "ext":
        for toks in seq_iter(spaces.SIGMA_DOC_EXT, shard[1]):
            check_text("".join(toks), acc)
    elif kind == "mini":
        for toks in seq_iter(spaces.SIGMA_DOC_MINI, shard[1]):
            check_text("".join(toks), acc)
    elif kind == "dev":
        for edits, toks in spaces.deviation_iter(shard, spaces.SIGMA_DOC):
            check_text("".join(toks), acc)
            if shard[2] <= 1:
                check_text("".join(toks), acc, route="parse_string")
                check_text("".join(toks), acc, route="parse_string_reused_stack")
        acc.count(f"deviation_k{shard[2]}_docs")
    elif kind == "big":
        for text in big_texts(shard[1], shard[2]):
            acc.count("big_texts")
            check_text(text, acc, case={"big": [shard[1], shard[2]], "text": text})
            # the blocks parse_string returns (default stack) must tile the source as well
            check_text(text, acc, case={"big": [shard[1], shard[2]], "text": text}, route="parse_string")
            check_text(text, acc, case={"big": [shard[1], shard[2]], "text": text}, route="parse_string_reused_stack")
    elif kind == "longcomment":
        # free text of middling to large size (around every power of two up to 2**15) with leading blank lines, a short
        # or long first line, and runs of trailing white space before the next block
        for L in (1, 10, 100, 1000, 4000, 4095, 4096, 4097, 5000, 8191, 8192, 8193, 20000, 32768, 40000):
            for lead in ("", "\n\n", " \n\t\n"):
                for first in ("a", "first line of the comment " * 3):
                    for trail in ("\n", "\n\n\n", "\n" * 12 + "  ", " " * 50 + "\n"):
                        body = (first + "\n" + ("x" * 79 + "\n") * (L // 80) + "y" * (L % 80)).rstrip("\n")
                        text = lead + body + trail + "@a{k, t = {v}}\n" + body[:40] + trail
                        acc.count("long_comment_texts")
                        check_text(text, acc, case={"longcomment": [L, lead, len(first), trail], "text": text})
                        check_text(text, acc, case={"longcomment": [L, lead, len(first), trail], "text": text}, route="parse_string")
    elif kind == "layout":
        for text in layout_iter(shard[1]):
            check_text(text, acc)
            acc.count("layout_texts")


def replay(case, acc):
    check_text(case["text"], acc, case, route=case.get("route", "split"))


def unit_test(case):
    return (
        "from bibtexparser.splitter import Splitter\n"
        f"text = {case['text']!r}\n"
        "cur = 0\n"
        "for b in Splitter(text).split().blocks:\n"
        "    while cur < len(text) and text[cur].isspace(): cur += 1\n"
        "    assert text.startswith(b.raw, cur), (cur, b.raw)\n"
        "    assert b.start_line == text.count('\\n', 0, cur), (b.start_line, b.raw)\n"
        "    cur += len(b.raw)\n"
        "assert text[cur:].strip() == ''\n"
    )


def ENV_SHARDS(tier):
    """The broad, cheap families: run again in a fresh interpreter per environment (engine.run_environments)."""
    return [s for s in shards('quick') if s[0] in ("ext", "mini", "dev", "layout", "longcomment")]

