"""C11 — @string references resolve exactly: bare matching identifiers only (DESIGN 4/C11)."""
import itertools

import bibtexparser
from bibtexparser.middlewares import RemoveEnclosingMiddleware
from bibtexparser.model import DuplicateBlockKeyBlock, Entry, String

from .. import bigdocs, dialect, leak
from ..canon import canon

ID = "C11"
RULE = (
    "every document of <=4 (quick) / <=5 (thorough) blocks over an 8-block catalogue (@string s twice, a string whose value is an identifier, "
    "a string differing only in case, an entry using every value form {bare defined, bare undefined, {key}, \"key\", other case, key # key, "
    "key # \"x\", number}, an entry with two fields naming the same string, a plain entry, a comment), in every order (definitions before, after, "
    "duplicated, absent), parsed with the default stack and compared with a reference computed from the source text. "
    "Non-trivial = document with an entry and at least one @string (distinct by document)."
)
ASSUMPTIONS = ["only live entries are judged (a repeated entry becomes a duplicate-key block, C09's subject)"]
STATIC_SAMPLES = ['@a{k1, f1 = s}\n@string{s = "one"}']

CAT = [
    ("string", "s", '"one"'),
    ("string", "s", "{two}"),
    ("string", "t", "s"),
    ("entry", "a", "k1", [("f1", "s"), ("f2", "t"), ("f3", "u"), ("f4", "{s}"), ("f5", '"s"'), ("f6", "S"), ("f7", "s # s"), ("f8", 's # "x"'), ("f9", "12")]),
    ("entry", "b", "k2", [("g1", "s"), ("g2", "s"), ("g3", "t"), ("g4", "{t}")]),
    ("comment", "words s t u"),
    ("entry", "c", "k3", [("h", "{plain}")]),
    ("string", "S", '"upper"'),
    ("entry-ml", "d", "k4", [("x", "s"), ("y", "t")]),  # multi-line layout, bare reference last, no trailing comma
    ("string", "v", "v"),  # content equal to its own key
    ("entry", "e", "k5", [("p", "v"), ("q", "{v}"), ("r", "s"), ("w", "e"), ("z", "n")]),
    ("string", "e", ""),  # no content at all (accepted by the splitter as an @string block): resolves to the empty text
    ("string", "n", '""'),  # empty content in quotes
    ("entry", "f", "k6", [("t", '"{a {b} 12" c}"'), ("j", "s"), ("u", "{x {y} \"z\"}"), ("w", "t")]),  # a reference after values whose quotes and braces interleave
    ("string", "a.b", '"dot"'),  # names holding characters with a meaning in regular expressions / templates
    ("string", "x+y", "{plus}"),
    ("entry", "g", "k7", [("m1", "a.b"), ("m2", "axb"), ("m3", "x+y"), ("m4", "xy"), ("m5", "x++y"), ("m6", "{a.b}"), ("m7", "%s"), ("m8", "a.b # x+y")]),
    ("entry", "h", "s", [("x", "s"), ("y", "t"), ("ID", "s")]),  # an entry whose citation key is the name of a string; a field called ID
    ("string", "jan", '"Janvier"'),  # a string named like one of BibTeX's month macros
    ("entry", "i", "k8", [("month", "jan"), ("note", "jan"), ("Month", "jan"), ("month2", "{jan}"), ("year", "dec")]),
    # fields called ID / ENTRYTYPE (names Entry's item access answers with the citation key / the type) in entries whose
    # key or type is the name of a string while the field's own value is something else
    ("entry", "j", "t", [("ID", "{own}"), ("ENTRYTYPE", "s"), ("z", "u")]),
    ("entry", "t", "k9", [("ENTRYTYPE", '"own"'), ("ID", "s"), ("id", "t")]),
    ("garbage", "@string{oops"),  # a definition that breaks off (a failed block): what follows is defined and resolved as ever
]


def text_of(c):
    if c[0] == "string":
        return f"@string{{{c[1]} = {c[2]}}}"
    if c[0] in ("comment", "garbage"):
        return c[1]
    if c[0] == "entry-ml":
        return f"@{c[1]}{{{c[2]},\n" + ",\n".join(f"  {k} = {v}" for k, v in c[3]) + "\n}"
    return f"@{c[1]}{{{c[2]}, " + ", ".join(f"{k} = {v}" for k, v in c[3]) + "}"


def bounds(tier):
    return {"catalogue": [text_of(c) for c in CAT], "max_blocks": 4 if tier == "quick" else 5}


def shards(tier):
    return [("first", i) for i in range(len(CAT))] + [("two_parts", i) for i in range(len(CAT))] + [("leak", 0), ("lengths", 0)] + [("big", n, v) for n in (bigdocs.SIZES_QUICK if tier == "quick" else bigdocs.SIZES_THOROUGH) for v in (0, 1)]


def strip1(v):
    if len(v) >= 2 and ((v[0] == "{" and v[-1] == "}") or (v[0] == '"' and v[-1] == '"')):
        return v[1:-1]
    return v


def is_bare(v):
    """An unenclosed value that is one name: no enclosing, no concatenation, no white space (names may hold characters
    that mean something to regular expressions or templates: a.b, x+y - they match literally)."""
    enclosed = len(v) >= 2 and ((v[0] == "{" and v[-1] == "}") or (v[0] == '"' and v[-1] == '"'))
    return not enclosed and v != "" and not any(c in v for c in '#{}" \t\r\n,=') and not v.isdigit()


def check_doc(ids, acc, case=None, nl="\n"):
    if any(CAT[a][0] == "comment" and CAT[b][0] == "comment" for a, b in zip(ids, ids[1:])):
        return
    text = nl.join(text_of(CAT[i]).replace("\n", nl) for i in ids)
    case = case if case is not None else {"ids": list(ids), "newline": nl}
    first_string = {}
    for i in ids:
        c = CAT[i]
        if c[0] == "string" and c[1] not in first_string:
            first_string[c[1]] = c[2]
    has_entry = any(CAT[i][0].startswith("entry") for i in ids)
    acc.case(sample=lambda: {"text": text}, nontrivial_key=text if (has_entry and first_string) else None)
    acc.trace(2)
    try:
        lib = bibtexparser.parse_string(text)
        ref_lib = bibtexparser.parse_string(text, parse_stack=[RemoveEnclosingMiddleware()])
    except Exception as e:
        acc.exception(e, case, "parse_string", size=len(ids))
        return
    acc.step(("doc", text), "parse", tuple(canon(b) for b in lib.blocks))

    def bad(oracle, obs, exp, **sig):
        s = {"oracle": oracle}
        s.update(sig)
        acc.violation(s, {"case": case, "text": text, "observed": obs, "expected": exp}, size=len(ids))

    if len(lib.blocks) != len(ids):
        acc.count("block_count_differs")  # C02/C09's subject
        return
    # strings stay as a stack without the resolver leaves them
    if [canon(s) for s in lib.strings] != [canon(s) for s in ref_lib.strings] or [type(b).__name__ for b in lib.blocks] != [type(b).__name__ for b in ref_lib.blocks]:
        bad("string_blocks_unchanged", [repr(s) for s in lib.strings], [repr(s) for s in ref_lib.strings])
        return
    final_string = {s.key: s.value for s in lib.strings}
    seen_keys = set()
    for i, b in zip(ids, lib.blocks):
        c = CAT[i]
        if not c[0].startswith("entry"):
            continue
        if c[2] in seen_keys:
            continue  # a repeated entry: duplicate-key block
        seen_keys.add(c[2])
        if type(b) is not Entry:
            bad("live_entry_expected", type(b).__name__, "Entry")
            return
        exp_vals = []
        exp_resolved = []
        for k, v in c[3]:
            if is_bare(v) and v in first_string:
                exp_vals.append((k, final_string.get(v)))
                exp_resolved.append(k)
            else:
                exp_vals.append((k, strip1(v)))
        got = [(f.key, f.value) for f in b.fields]
        acc.outcome((c[2], tuple(exp_resolved)))
        if got != exp_vals:
            diffs = [(g, e) for g, e in zip(got, exp_vals) if g != e]
            k = diffs[0][1][0] if diffs else "?"
            form = dict(c[3]).get(k, "?")
            over = bool(diffs) and not (is_bare(form) and form in first_string)
            bad("field_values_after_resolution", got, exp_vals, form=form, kind="resolved_too_much" if over else "not_or_wrongly_resolved")
            return
        meta = b.parser_metadata.get("ResolveStringReferences")
        if (meta or None) != (exp_resolved or None) or (meta is not None and not exp_resolved):
            bad("resolved_field_keys_recorded", meta, exp_resolved or None)
            return


def check_two_parts(first, acc):
    """A document handed over in two parts - parse_string(A), then parse_string(B, library=<that library>) - resolves the
    references of B's entries as parsing A and B in one go does: definitions in the part parsed earlier count."""
    docs = [ids for n in (1, 2) for ids in itertools.product(range(len(CAT)), repeat=n)]
    for a in docs:
        if a[0] != first:
            continue
        for b in docs:
            if not any(CAT[i][0].startswith("entry") for i in b):
                continue
            if any(CAT[x][0] == "comment" and CAT[y][0] == "comment" for x, y in zip(a + b, (a + b)[1:])):
                continue
            ta = "\n".join(text_of(CAT[i]) for i in a)
            tb = "\n".join(text_of(CAT[i]) for i in b)
            case = {"two_parts": [list(a), list(b)]}
            acc.trace(3)
            acc.case(nontrivial_key=("two_parts", a, b))
            try:
                lib = bibtexparser.parse_string(ta)
                lib = bibtexparser.parse_string(tb, library=lib)
                one = bibtexparser.parse_string(ta + "\n" + tb)
            except Exception as e:
                acc.exception(e, case, "parse_string(library=...)", size=len(a) + len(b))
                continue
            if len(lib.blocks) != len(one.blocks):
                acc.count("block_count_differs")
                continue
            # entries of the FIRST part: a bare field naming a string that only the second part defines holds that string's
            # content after the second call (the stack runs over the whole library again), as in the one-go parse
            defined_a = {CAT[i][1] for i in a if CAT[i][0] == "string"}
            defined_b = {CAT[i][1] for i in b if CAT[i][0] == "string"} - defined_a
            late = []
            unrecorded = []
            for pos, i in enumerate(a):
                c = CAT[i]
                if c[0].startswith("entry") and pos < len(lib.blocks) and type(lib.blocks[pos]) is Entry and type(one.blocks[pos]) is Entry:
                    for k, v in c[3]:
                        if is_bare(v) and v in defined_b:
                            got_, exp_ = lib.blocks[pos].fields_dict[k].value, one.blocks[pos].fields_dict[k].value
                            if got_ != exp_:
                                late.append((c[2], k, v, got_, exp_))
                            elif [kk for kk, _ in c[3]].count(k) == 1 and k not in (lib.blocks[pos].parser_metadata.get("ResolveStringReferences") or []):
                                # resolved by the second call: whatever else the record holds, it names this field
                                unrecorded.append((c[2], k, lib.blocks[pos].parser_metadata.get("ResolveStringReferences")))
            if unrecorded and not late:
                acc.violation(
                    {"oracle": "resolved_keys_recorded", "form": "document parsed in two parts"},
                    {"case": case, "text": [ta, tb], "observed": unrecorded[:3], "expected": "the record of an entry of the first part names the fields the second call resolved"},
                    size=len(a) + len(b),
                )
                continue
            if late:
                acc.violation(
                    {"oracle": "field_values_after_resolution", "form": "document parsed in two parts", "kind": "reference in the first part to a definition in the second"},
                    {"case": case, "text": [ta, tb], "observed": late[:3], "expected": "the string's content, as when parsed in one go"},
                    size=len(a) + len(b),
                )
                continue
            view = lambda L: [(x.key, [(f.key, f.value) for f in x.fields], x.parser_metadata.get("ResolveStringReferences")) for x in L.blocks[len(a) :] if type(x) is Entry]
            acc.step(("two_parts", a, b), "parse", repr(view(lib)))
            if view(lib) != view(one):
                acc.violation(
                    {"oracle": "field_values_after_resolution", "form": "document parsed in two parts", "kind": "differs from parsing it in one go"},
                    {"case": case, "text": [ta, tb], "observed": view(lib), "expected": view(one)},
                    size=len(a) + len(b),
                )


def check_parses_in_flight(acc):
    """Two default parses in flight: the library the outer parse fills is a user's Library subclass whose `entries` /
    `strings_dict` views, at their n-th reading, start a complete second parse_string of another document (inline or in a
    second thread) - each document's references resolve against its own @string blocks."""
    import threading

    from bibtexparser.library import Library

    text_a = '@string{jrnl = "Journal of A"}\n@string{onlya = {A only}}\n@article{a1, journal = jrnl, note = onlyb, x = onlya}\n@article{a2, journal = {jrnl}, y = jrnl}\n@article{a3, z = onlya, w = jrnl}\n'
    text_b = '@string{jrnl = "Journal of B"}\n@string{onlyb = {B only}}\n@article{b1, journal = jrnl, note = onlyb, x = onlya}\n'
    sig = lambda lib: [(type(b).__name__, getattr(b, "key", None), [(f.key, f.value) for f in getattr(b, "fields", [])], sorted((k, repr(v)) for k, v in b.parser_metadata.items() if k == "ResolveStringReferences")) for b in lib.blocks]
    alone_a, alone_b = sig(bibtexparser.parse_string(text_a)), sig(bibtexparser.parse_string(text_b))

    class Hooked(Library):
        hook = None  # [countdown, threaded, results]

        def _maybe(self):
            h = self.hook
            if h is not None:
                h[0] -= 1
                if h[0] < 0:
                    self.hook = None

                    def run():
                        try:
                            h[2].append(("ok", sig(bibtexparser.parse_string(text_b))))
                        except Exception as ex:
                            h[2].append(("raised", type(ex).__name__))

                    if h[1]:
                        t = threading.Thread(target=run)
                        t.start()
                        t.join()
                    else:
                        run()

        @property
        def entries(self):
            self._maybe()
            return Library.entries.fget(self)

        @property
        def strings_dict(self):
            self._maybe()
            return Library.strings_dict.fget(self)

    for nth in range(0, 8):
        for threaded in (False, True):
            case = {"parses_in_flight": nth, "in_another_thread": threaded}
            acc.trace(2)
            acc.case(nontrivial_key=("parses-in-flight", nth, threaded))
            acc.count("parses_in_flight")
            lib = Hooked()
            results = []
            lib.hook = [nth, threaded, results]
            try:
                got = sig(bibtexparser.parse_string(text_a, library=lib))
            except Exception as ex:
                acc.exception(ex, case, "parse_string(library=a user's Library subclass)")
                continue
            acc.step(("outer", "a"), ("inner at view reading", nth, threaded), hash(repr(got)))
            if got != alone_a:
                acc.violation({"oracle": "field_values_after_resolution", "form": "two parses in flight", "kind": "outer"}, {"case": case, "observed": got, "expected": alone_a})
            elif results and results[0] != ("ok", alone_b):
                acc.violation({"oracle": "field_values_after_resolution", "form": "two parses in flight", "kind": "inner"}, {"case": case, "observed": repr(results[0])[:600], "expected": alone_b})


LENGTHS = {"quick": [1, 2, 15, 16, 17, 31, 32, 33, 63, 64, 65, 127, 128, 129, 255, 256, 257, 1023, 1024, 1025, 4095, 4096, 4097], "thorough": [1, 2, 15, 16, 17, 31, 32, 33, 63, 64, 65, 127, 128, 129, 255, 256, 257, 1023, 1024, 1025, 4095, 4096, 4097, 65535, 65536, 65537, 1 << 20]}


def check_lengths(acc, tier):
    """String names, contents and field keys of every length on the ladder (around the powers of two a threshold would be
    set at): a bare name of that length resolves to the content of that length; the look-alikes next to it do not."""
    for n in LENGTHS[tier]:
        name = ("n" * (n - 1) + "X")[:n]
        content = "c" * n
        fkey = "f" * n
        for defined_first in (True, False):
            sdef = f'@string{{{name} = "{content}"}}'
            entry = f"@a{{e, {fkey} = {name}, g = {{{name}}}, h = {name}z, i = {name.lower()}q, j = \"{name}\", k = {name} # {name}}}"
            text = (sdef + "\n" + entry) if defined_first else (entry + "\n" + sdef)
            case = {"length": n, "defined_first": defined_first}
            acc.trace()
            acc.case(nontrivial_key=("length", n, defined_first))
            acc.count("length_documents")
            try:
                lib = bibtexparser.parse_string(text)
            except Exception as e:
                acc.exception(e, case, "parse_string", size=n)
                continue
            ents = lib.entries
            got = [(f.key, f.value) for f in ents[0].fields] if len(ents) == 1 else None
            exp = [(fkey, content), ("g", name), ("h", name + "z"), ("i", name.lower() + "q"), ("j", name), ("k", f"{name} # {name}")]
            acc.step(("length", n), defined_first, hash(repr(got)))
            if got != exp:
                d = next((i for i, (a, b) in enumerate(zip(got or [], exp)) if a != b), None)
                acc.violation(
                    {"oracle": "field_values_after_resolution", "form": "names and contents of every length", "kind": "differs"},
                    {"case": case, "observed": None if got is None else [(k[:20], v[:20], len(v)) for k, v in got[:6]], "expected": [(k[:20], v[:20], len(v)) for k, v in exp], "first_differing_field": d},
                    size=n,
                )
                continue
            meta = ents[0].parser_metadata.get("ResolveStringReferences")
            strs = [(b.key, b.value) for b in lib.strings]
            if meta != [fkey] or strs != [(name, content)]:  # (the default stack also strips the string's own enclosing: C10)
                acc.violation({"oracle": "resolved_field_keys_recorded"}, {"case": case, "observed": [repr(meta)[:80], repr(strs)[:80]], "expected": "the one resolved field key; the @string unchanged"}, size=n)


def run_shard(shard, tier, acc):
    if shard[0] == "lengths":
        check_parses_in_flight(acc)
        return check_lengths(acc, tier)
    if shard[0] == "two_parts":
        return check_two_parts(shard[1], acc)
    if shard[0] == "big":
        text, exp = bigdocs.document(shard[1], shard[2])
        want = bigdocs.expected_after_default_stack(exp)
        case = {"big": [shard[1], shard[2]]}
        acc.trace()
        acc.case(nontrivial_key=("big", shard[1], shard[2]))
        try:
            lib = bibtexparser.parse_string(text)
        except Exception as e:
            acc.exception(e, case, "parse_string")
            return
        got = dialect.observed(lib)
        acc.step(("big", shard[1], shard[2]), "parse", len(got))
        if got != want:
            i = next((n for n, (a, b) in enumerate(zip(got, want)) if a != b), min(len(got), len(want)))
            acc.violation(
                {"oracle": "field_values_after_resolution", "form": "big document", "kind": "differs"},
                {"case": case, "observed": got[i] if i < len(got) else None, "expected": want[i] if i < len(want) else None, "block_index": i},
                size=shard[1],
            )
            return
        strings = {b[1] for b in exp if b[0] == "string"}
        for b, e in zip(lib.blocks, exp):
            if e[0] == "entry":
                res = [k for k, v in e[3] if v in strings]
                meta = b.parser_metadata.get("ResolveStringReferences")
                if (meta or None) != (res or None):
                    acc.violation({"oracle": "resolved_field_keys_recorded"}, {"case": case, "observed": meta, "expected": res, "entry": e[2]}, size=shard[1])
                    return
        return
    if shard[0] == "leak":
        from bibtexparser.middlewares import ResolveStringReferencesMiddleware
        from bibtexparser.splitter import Splitter

        docs = ["\n".join(text_of(CAT[i]) for i in ids) for n in (1, 2, 3) for ids in itertools.product(range(len(CAT)), repeat=n)]
        inputs = [(lambda d=d: Splitter(d).split()) for d in docs]
        for ip in (True, False):
            from .. import hostile

            leak.run(lambda: ResolveStringReferencesMiddleware(allow_inplace_modification=ip), inputs, acc, f"ResolveStringReferences({ip})", case_of=lambda i: docs[i], poison=hostile.libraries(), judge=None if ip else leak.copy_judge)
        return
    maxb = 4 if tier == "quick" else 5
    i = shard[1]
    for n in range(1, maxb + 1):
        for rest in itertools.product(range(len(CAT)), repeat=n - 1):
            check_doc((i,) + rest, acc)
            if n <= 3:
                check_doc((i,) + rest, acc, nl="\r\n")


def replay(case, acc):
    if "parses_in_flight" in case:
        return check_parses_in_flight(acc)
    if "length" in case:
        return check_lengths(acc, "quick" if case["length"] <= 4097 else "thorough")
    if "big" in case:
        return run_shard(("big", case["big"][0], case["big"][1]), "quick", acc)
    if "leak" in case:
        return run_shard(("leak", 0), "quick", acc)
    if "two_parts" in case:
        return check_two_parts(case["two_parts"][0][0], acc)
    check_doc(tuple(case["ids"]), acc, case, nl=case.get("newline", "\n"))


def unit_test(case):
    text = "\n".join(text_of(CAT[i]) for i in case["ids"])
    return (
        "import bibtexparser\n"
        f"lib = bibtexparser.parse_string({text!r})\n"
        "for e in lib.entries: print(e.key, [(f.key, f.value) for f in e.fields], e.parser_metadata.get('ResolveStringReferences'))\n"
    )


def ENV_SHARDS(tier):
    """The broad, cheap families: run again in a fresh interpreter per environment (engine.run_environments)."""
    return [s for s in shards('quick') if s[0] == "big" or s in (("first", 9), ("two_parts", 22))]

