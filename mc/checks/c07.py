"""C07 — writing and copy-mode middleware never mutate or alias their input (DESIGN 4/C07)."""
import itertools

import bibtexparser
from bibtexparser import middlewares as mw
from bibtexparser.model import Entry, ExplicitComment, ImplicitComment, Preamble, String
from bibtexparser.writer import BibtexFormat

from .. import leak
from bibtexparser.model import ParsingFailedBlock
from ..canon import alias, canon, describe

ID = "C07"
RULE = (
    "libraries = parses of 10 catalogue documents (all block kinds, failed, duplicate-key, duplicate-field, name, month and accented fields) plus "
    "the same with names separated and split (list / NameParts values) and with a middleware-error block; x every shipped middleware class with "
    "allow_inplace_modification=False in every option set (and the block sorter) x every stack of length <=2 (quick) / <=3 (thorough) over that "
    "pool, instances reused within a stack; after every stage the input must equal its structural snapshot and share no mutable object with the "
    "output. Plus write_string twice with 6 formats. Non-trivial = stage that ran to completion (distinct by (library, stack prefix))."
)
ASSUMPTIONS = [
    "exception objects stored in failed blocks are not counted as aliasing (ParsingException.__deepcopy__ returns self by design); str/int/None/tuples of those are immutable",
    "a stage that raises (e.g. SplitNameParts on unseparated names) ends the trace without verdict",
]
STATIC_SAMPLES = [{"library": 6, "stack": ["SortFieldsCustom(b,a)", "SortFieldsCustom(b,a)"]}]

DOCS = [
    "@article{k1,\n title = {A Title},\n year = 1990,\n pages = {1--2},\n note = \"n\"\n}",
    '@string{s = "str"}\n@string{t = s # {x}}\n@book{k2, a = s, b = s # " y", c = {s}, d = u}',
    '@preamble{"pre"}\n% implicit comment\n@comment{explicit {c}}\n@misc{k3, x = {1}}\ntrailing',
    "@article{k4, broken = {unterminated\n@book{k5, y = {2}}",
    '@a{dup, f = {1}}\n@b{dup, g = {2}}\n@string{sd = "1"}\n@string{sd = "2"}\n@c{dup, h = {3}}',
    "@a{k6, f = {1}, f = {2}, g = {3}, f = {4}}\n@b{k7, z = {0}}",
    "@a{k8, author = {Ada Lovelace and Turing, Alan M. and {Simon and Schuster} and de la Fontaine, Jr, Jean}, editor = \"Knuth, D. E.\", translator = {X Y}}",
    '@a{k9, month = jan, year = "1999"}\n@b{k10, month = 3}\n@c{k11, month = "March", Month = {May}}\n@d{k12, month = 13}',
    "@a{k13, title = {Caf\\'e {\\\"u}ber $x_1$ 100\\% \\& co}, url = {http://a.b/c_d}, note = {é ü ß}}\n@string{acc = {\\'e}}",
    "% head\n@string{m = {v}}\n@X{k14,\n a = m,\n B = {l1\nl2},\n author = {A B and C D},\n month = feb,\n}\n@comment{c}\n@x{k14, dup = {y}}\n@preamble{p}",
]


def base_library(i):
    """Fresh library number i (never shared between traces)."""
    n = len(DOCS)
    if i < n:
        return bibtexparser.parse_string(DOCS[i])
    if i == n:  # list values
        return bibtexparser.parse_string(DOCS[6], append_middleware=[mw.SeparateCoAuthors()])
    if i == n + 1:  # NameParts values
        return bibtexparser.parse_string(DOCS[6] + "\n" + DOCS[9], append_middleware=[mw.SeparateCoAuthors(), mw.SplitNameParts()])
    if i == n + 2:  # middleware error block
        return bibtexparser.parse_string("@a{bad, author = {A, B, C, D and E F}, t = {x}}\n@b{ok, author = {G H}}", append_middleware=[mw.SeparateCoAuthors(), mw.SplitNameParts()])
    if i == n + 3:  # int values
        return bibtexparser.parse_string(DOCS[7], append_middleware=[mw.MonthIntMiddleware()])
    if i == n + 4:  # separated names, one of them invalid: a later SplitNameParts makes the error block itself
        return bibtexparser.parse_string(
            "@a{ok1, author = {G H}}\n@a{bad, author = {I J and A, B, C, D and E F}, editor = {K L}, t = {x}}\n@b{ok2, author = {M N}}\n"
            # (the invalid name in a later name field, after one that is converted first, and before another)
            "@a{bad2, author = {O P and Q R}, editor = {S, T, U, V}, translator = {W X}, t = {y}}",
            append_middleware=[mw.SeparateCoAuthors()],
        )
    if i == n + 5:  # a long document (size thresholds)
        from .. import bigdocs

        return bibtexparser.parse_string(bigdocs.document(130, 1)[0] + "\n@article{Key0:x, dup = {d}}\n@broken{zz, a b}\n")
    if i == n + 6:  # bare (unenclosed) name values turned into lists; enclosing metadata present
        return bibtexparser.parse_string("@a{k, author = smith, editor = {A B and C D}, year = 1999, note = other}", append_middleware=[mw.SeparateCoAuthors()])
    if i == n + 7:  # list / NameParts values in fields that the default name middlewares do not look at
        wide = ("author", "bookauthor", "namea")
        return bibtexparser.parse_string(
            "@book{k, author = {A B and C D}, bookauthor = {E F and G H}, namea = {I J}, title = {T}}\n@misc{m, bookauthor = {K L}}",
            append_middleware=[mw.SeparateCoAuthors(name_fields=wide), mw.SplitNameParts(name_fields=("author", "bookauthor"))],
        )
    if i == n + 8:  # a duplicate-key block whose first holder has meanwhile become a middleware-error block (so the
        # wrapper's previous_block is no longer among the library's blocks), and an ordinary duplicate after it
        return bibtexparser.parse_string(
            "@a{dup, author = {Doe,}, t = {x}}\n@b{dup, author = {A B}}\n@c{ok, author = {C D}}\n@c{ok, author = {E F}}",
            append_middleware=[mw.SeparateCoAuthors(), mw.SplitNameParts()],
        )
    if i >= 1000:  # libraries of n = i - 1000 small blocks (the sizes a chunked or parallel copy would switch at)
        n = i - 1000
        parts = ['@string{s = "v"}', "% c", "@a{dup, t = {x}}", "@a{dup, t = {y}}"]
        parts += ["@article{k%d, author = {A%d B and C D}, title = {T %d}, month = %s, year = %d}" % (j, j, j, ("jan", "3", '"May"')[j % 3], 1900 + j) for j in range(n - 5)]
        parts += ["@broken{zz, a b}"]
        return bibtexparser.parse_string("\n".join(parts) + "\n")
    raise IndexError(i)


NLIBS = len(DOCS) + 9
SCALE = {"quick": [255, 256, 257, 300, 513, 1000, 1025], "thorough": [255, 256, 257, 300, 513, 1000, 1025, 2049, 4097, 16385]}


def pool():
    """[(label, factory)] - a factory call gives a fresh instance."""
    F = False
    p = [("RemoveEnclosing", lambda: mw.RemoveEnclosingMiddleware(allow_inplace_modification=F))]
    for r, ei, d in itertools.product((True, False), (True, False), ("{", '"')):
        p.append((f"AddEnclosing({r},{ei},{d})", lambda r=r, ei=ei, d=d: mw.AddEnclosingMiddleware(reuse_previous_enclosing=r, enclose_integers=ei, default_enclosing=d, allow_inplace_modification=F)))
    p.append(("NormalizeFieldKeys", lambda: mw.NormalizeFieldKeys(allow_inplace_modification=F)))
    p.append(("ResolveStringReferences", lambda: mw.ResolveStringReferencesMiddleware(allow_inplace_modification=F)))
    for km, eu in itertools.product((True, False), (True, False)):
        p.append((f"LatexEncoding({km},{eu})", lambda km=km, eu=eu: mw.LatexEncodingMiddleware(keep_math=km, enclose_urls=eu, allow_inplace_modification=F)))
    for kb, km in itertools.product((True, False), (True, False)):
        p.append((f"LatexDecoding({kb},{km})", lambda kb=kb, km=km: mw.LatexDecodingMiddleware(keep_braced_groups=kb, keep_math_mode=km, allow_inplace_modification=F)))
    p.append(("MonthLong", lambda: mw.MonthLongStringMiddleware(allow_inplace_modification=F)))
    p.append(("MonthAbbr", lambda: mw.MonthAbbreviationMiddleware(allow_inplace_modification=F)))
    p.append(("MonthInt", lambda: mw.MonthIntMiddleware(allow_inplace_modification=F)))
    p.append(("SeparateCoAuthors", lambda: mw.SeparateCoAuthors(allow_inplace_modification=F)))
    p.append(("MergeCoAuthors", lambda: mw.MergeCoAuthors(allow_inplace_modification=F)))
    p.append(("SplitNameParts", lambda: mw.SplitNameParts(allow_inplace_modification=F)))
    p.append(("MergeNameParts(last)", lambda: mw.MergeNameParts(style="last", allow_inplace_modification=F)))
    p.append(("MergeNameParts(first)", lambda: mw.MergeNameParts(style="first", allow_inplace_modification=F)))
    orders = [
        None,
        (Entry, String, Preamble),
        (ExplicitComment, ImplicitComment),
        (),
        (Preamble, Entry),
        (String,),
    ]
    for n, o in enumerate(orders):
        for top in (True, False):
            if o is None:
                p.append((f"SortBlocks(default,{top})", lambda top=top: mw.SortBlocksByTypeAndKeyMiddleware(preserve_comments_on_top=top)))
            else:
                p.append((f"SortBlocks(o{n},{top})", lambda o=o, top=top: mw.SortBlocksByTypeAndKeyMiddleware(block_type_order=o, preserve_comments_on_top=top)))
    p.append(("SortFieldsAlphabetically", lambda: mw.SortFieldsAlphabeticallyMiddleware(allow_inplace_modification=F)))
    for o, cs in ((("b", "a"), False), (("year", "title"), False), (("B",), True), ((), False)):
        p.append((f"SortFieldsCustom({','.join(o)},{cs})", lambda o=o, cs=cs: mw.SortFieldsCustomMiddleware(order=o, case_sensitive=cs, allow_inplace_modification=F)))
    return p


POOL = pool()


def spelled():
    """[(label, [alternative factories])] aligned with POOL: the same configuration with the arguments given by position
    in the documented order (and sequences given as lists).  Flags given as 0 / 1 are NOT judged here: the unchanged
    tree itself reads some flags with `is True` (LaTeX middlewares), so their meaning for non-bool values is not fixed."""
    alt = {}
    for r, ei, d in itertools.product((True, False), (True, False), ("{", '"')):
        alt[f"AddEnclosing({r},{ei},{d})"] = [lambda r=r, ei=ei, d=d: mw.AddEnclosingMiddleware(r, ei, d, False)]
    for km, eu in itertools.product((True, False), (True, False)):
        alt[f"LatexEncoding({km},{eu})"] = [lambda km=km, eu=eu: mw.LatexEncodingMiddleware(km, eu, None, False)]
    for kb, km in itertools.product((True, False), (True, False)):
        alt[f"LatexDecoding({kb},{km})"] = [lambda kb=kb, km=km: mw.LatexDecodingMiddleware(False, kb, km)]
    one = {
        "RemoveEnclosing": mw.RemoveEnclosingMiddleware,
        "NormalizeFieldKeys": mw.NormalizeFieldKeys,
        "ResolveStringReferences": mw.ResolveStringReferencesMiddleware,
        "MonthLong": mw.MonthLongStringMiddleware,
        "MonthAbbr": mw.MonthAbbreviationMiddleware,
        "MonthInt": mw.MonthIntMiddleware,
        "SeparateCoAuthors": mw.SeparateCoAuthors,
        "MergeCoAuthors": mw.MergeCoAuthors,
        "SplitNameParts": mw.SplitNameParts,
        "SortFieldsAlphabetically": mw.SortFieldsAlphabeticallyMiddleware,
    }
    for label, cls in one.items():
        alt[label] = [lambda cls=cls: cls(False)]
    names = ("author", "editor", "translator")
    for label, cls in (("SeparateCoAuthors", mw.SeparateCoAuthors), ("MergeCoAuthors", mw.MergeCoAuthors), ("SplitNameParts", mw.SplitNameParts)):
        alt[label].append(lambda cls=cls: cls(False, names))
    alt["MergeNameParts(last)"] = [lambda: mw.MergeNameParts("last", False), lambda: mw.MergeNameParts("last", False, names)]
    alt["MergeNameParts(first)"] = [lambda: mw.MergeNameParts("first", False)]
    for o, cs in ((("b", "a"), False), (("year", "title"), False), (("B",), True), ((), False)):
        alt[f"SortFieldsCustom({','.join(o)},{cs})"] = [lambda o=o, cs=cs: mw.SortFieldsCustomMiddleware(o, cs, False), lambda o=o, cs=cs: mw.SortFieldsCustomMiddleware(order=list(o), case_sensitive=cs, allow_inplace_modification=False)]
    orders = [None, (Entry, String, Preamble), (ExplicitComment, ImplicitComment), (), (Preamble, Entry), (String,)]
    for n, o in enumerate(orders):
        for top in (True, False):
            if o is None:
                alt[f"SortBlocks(default,{top})"] = []
            else:
                alt[f"SortBlocks(o{n},{top})"] = [lambda o=o, top=top: mw.SortBlocksByTypeAndKeyMiddleware(o, top), lambda o=o, top=top: mw.SortBlocksByTypeAndKeyMiddleware(block_type_order=list(o), preserve_comments_on_top=top)]
    return alt


SPELLED = spelled()


def run_spelled(li, acc):
    """Every pool configuration, spelled by position / with 0-1 flags, behaves on library li as the keyword spelling:
    same result (or the same kind of failure), input left alone, nothing shared."""
    for mi, (label, fac) in enumerate(POOL):
        for ai, afac in enumerate(SPELLED.get(label, [])):
            case = {"spelled_library": li, "middleware": label, "spelling": ai}
            acc.trace(2)
            acc.case(nontrivial_key=("spelled", li, mi, ai))
            try:
                base = canon(fac().transform(base_library(li)))
            except RecursionError:
                continue
            except Exception as e:
                base = ("raised", type(e).__name__)
            lib = base_library(li)
            snap = canon(lib)
            out = None
            try:
                out = afac().transform(lib)
                got = canon(out)
            except RecursionError:
                continue
            except Exception as e:
                got = ("raised", type(e).__name__)
            acc.step(("spelled", li, label), ai, hash(repr(got)))
            if got != base:
                acc.violation({"oracle": "same_configuration_same_behaviour", "middleware": label.split("(")[0], "what": "result"}, {"case": case, "observed": repr(got)[:300], "expected": repr(base)[:300]}, size=li)
            elif canon(lib) != snap:
                acc.violation({"oracle": "same_configuration_same_behaviour", "middleware": label.split("(")[0], "what": "input changed (copy mode not respected)"}, {"case": case, "observed": "input changed", "expected": "unchanged"}, size=li)
            elif out is not None and alias(lib, out):
                acc.violation({"oracle": "same_configuration_same_behaviour", "middleware": label.split("(")[0], "what": "output shares objects with the input"}, {"case": case, "observed": [describe(o) for o in alias(lib, out)[:3]], "expected": "nothing shared"}, size=li)
FORMATS = [("\t", 0, False, "\n\n"), ("", "auto", True, "\n"), ("  ", 12, False, ""), (" ", "auto", False, "\n\n"), ("\t", 3, True, " "), ("", 0, False, "\n% x\n")]


def bounds(tier):
    return {"libraries": NLIBS, "middleware_pool": [l for l, _ in POOL], "max_stack": 2 if tier == "quick" else 3, "write_formats": len(FORMATS)}


def shards(tier):
    return [("stacks", li, mi) for li in range(NLIBS) for mi in range(len(POOL))] + [("write", li) for li in range(NLIBS)] + [("direct", li) for li in range(NLIBS)] + [("factories", 0)] + [("spelled", li) for li in range(NLIBS)] + [("leak", mi) for mi in range(len(POOL))] + [("scale", n, part) for n in SCALE[tier] for part in range(4)]


def run_stack(li, idxs, acc, judged_prefixes):
    """Run one stack on a fresh library; judge the last stage only if this prefix was not judged before."""
    lib0 = base_library(li)
    snap0 = canon(lib0)
    inst = {}
    cur = lib0
    for depth, mi in enumerate(idxs):
        label, fac = POOL[mi]
        if mi not in inst:
            inst[mi] = fac()
        m = inst[mi]
        snap = canon(cur) if cur is not lib0 else snap0
        acc.trace()
        try:
            out = m.transform(cur)
        except RecursionError:
            acc.raised["RecursionError"] += 1
            return
        except Exception as e:
            if canon(cur) != snap:
                acc.violation(
                    {"oracle": "stage_input_unchanged", "middleware": label.split("(")[0], "path": "stage raised"},
                    {"case": {"library": li, "stack": [POOL[x][0] for x in idxs[: depth + 1]], "stack_idx": list(idxs[: depth + 1])}, "observed": f"input changed although the stage raised {type(e).__name__}", "expected": "equal to its snapshot"},
                    size=len(idxs) * 100 + li,
                )
                return
            # inconclusive only if the failure is inherent to (middleware, data): the same middleware in in-place mode,
            # which copies nothing, must fail as well on an equal fresh library
            if depth == 0 and not label.startswith("SortBlocks"):
                ok_inplace = False
                try:
                    twin = fac()
                    twin._allow_inplace_modification = True
                    twin.transform(base_library(li))
                    ok_inplace = True
                except Exception:
                    pass
                if ok_inplace:
                    acc.violation(
                        {"oracle": "copy_mode_returns_a_result_where_inplace_mode_does", "middleware": label.split("(")[0], "exception": type(e).__name__},
                        {"case": {"library": li, "stack": [label], "stack_idx": list(idxs)}, "observed": f"{type(e).__name__}: {str(e)[:200]}", "expected": "a result (the in-place twin of this middleware succeeds on an equal library)"},
                        size=li,
                    )
                    return
            acc.raised[type(e).__name__] += 1
            return
        prefix = (li,) + tuple(idxs[: depth + 1])
        last = depth == len(idxs) - 1
        if last:
            case = {"library": li, "stack": [POOL[x][0] for x in idxs], "stack_idx": list(idxs)}
            acc.case(sample=lambda: case, nontrivial_key=prefix)
            s_in = acc.state(snap)
            acc.transition(s_in, label, acc.state(canon(out)))
            acc.outcome(label)

            def bad(oracle, obs, exp, **sig):
                s = {"oracle": oracle, "middleware": label.split("(")[0]}
                s.update(sig)
                acc.violation(s, {"case": case, "observed": obs, "expected": exp}, size=len(idxs) * 100 + li)

            if canon(cur) != snap:
                bad("stage_input_unchanged", "input of the stage changed", "equal to its snapshot")
                return
            al = alias(cur, out)
            if al:
                bad("stage_output_shares_nothing_with_input", [describe(o) for o in al[:4]], "no shared mutable object", shared=type(al[0]).__name__)
                return
            if canon(lib0) != snap0:
                bad("stack_input_unchanged", "original library changed", "equal to its snapshot")
                return
            al = alias(lib0, out) if cur is not lib0 else []
            if al:
                bad("stack_output_shares_nothing_with_original", [describe(o) for o in al[:4]], "no shared mutable object", shared=type(al[0]).__name__)
                return
        cur = out


def run_direct(li, acc):
    """The per-block route: transform_block(block, library) of a copy-mode block middleware, called directly (as a user
    middleware composing shipped ones does), leaves block and library alone and hands back nothing of them."""
    for mi, (label, fac) in enumerate(POOL):
        m = fac()
        if not hasattr(m, "transform_block") or label.startswith("SortBlocks"):
            continue
        lib = base_library(li)
        snap = canon(lib)
        for bi, block in enumerate(list(lib.blocks)):
            case = {"direct_library": li, "middleware": label, "pool_idx": mi, "block_index": bi}
            acc.trace()
            acc.case(nontrivial_key=("direct", li, mi, bi))
            try:
                out = m.transform_block(block, lib)
            except RecursionError:
                acc.raised["RecursionError"] += 1
                continue
            except Exception as e:
                if canon(lib) != snap:
                    acc.violation(
                        {"oracle": "transform_block_input_unchanged", "middleware": label.split("(")[0], "path": "raised"},
                        {"case": case, "observed": f"input changed although the call raised {type(e).__name__}", "expected": "equal to its snapshot"},
                        size=li,
                    )
                    break
                acc.raised[type(e).__name__] += 1
                continue
            acc.step(("direct", li, bi), label, canon(out))
            if canon(lib) != snap:
                acc.violation(
                    {"oracle": "transform_block_input_unchanged", "middleware": label.split("(")[0], "path": "returned"},
                    {"case": case, "observed": "block or library changed by transform_block", "expected": "equal to its snapshot"},
                    size=li,
                )
                break
            al = alias(block, out) if out is not None else []
            if al:
                acc.violation(
                    {"oracle": "transform_block_output_shares_nothing_with_input", "middleware": label.split("(")[0], "shared": type(al[0]).__name__},
                    {"case": case, "observed": [describe(o) for o in al[:4]], "expected": "no shared mutable object"},
                    size=li,
                )
                break


def run_factories(acc):
    """The stack factories (default_parse_stack / default_unparse_stack) asked for copy mode give stacks every stage of
    which is in copy mode: input of each stage left alone, nothing shared; the result equals the in-place stack's."""
    from bibtexparser.middlewares.parsestack import default_parse_stack, default_unparse_stack
    from bibtexparser.splitter import Splitter

    spell = [("keyword", lambda f: f(allow_inplace_modification=False)), ("positional", lambda f: f(False))]
    for di, doc in enumerate(DOCS):
        for fname, fac, mk in (("default_parse_stack", default_parse_stack, lambda: Splitter(doc).split()), ("default_unparse_stack", default_unparse_stack, lambda: bibtexparser.parse_string(doc))):
            for sname, call in spell + ([("default", lambda f: f())] if fname == "default_unparse_stack" else []):
                case = {"factory": fname, "spelling": sname, "doc": di}
                acc.trace()
                acc.case(nontrivial_key=("factory", fname, sname, di))
                try:
                    stack = call(fac)
                    cur = mk()
                    ok = True
                    for n, m in enumerate(stack):
                        snap = canon(cur)
                        out = m.transform(cur)
                        if canon(cur) != snap:
                            acc.violation({"oracle": "stage_input_unchanged", "middleware": type(m).__name__, "path": fname}, {"case": dict(case, stage=n), "observed": "input of the stage changed", "expected": "equal to its snapshot"})
                            ok = False
                            break
                        al = alias(cur, out)
                        if al:
                            acc.violation({"oracle": "stage_output_shares_nothing_with_input", "middleware": type(m).__name__, "shared": type(al[0]).__name__, "path": fname}, {"case": dict(case, stage=n), "observed": [describe(o) for o in al[:3]], "expected": "no shared mutable object"})
                            ok = False
                            break
                        cur = out
                    if ok:
                        ref = mk()
                        for m in fac(allow_inplace_modification=True):
                            ref = m.transform(ref)
                        acc.step(("factory", fname, di), sname, hash(repr(canon(cur))))
                        # (failed blocks aside: a duplicate-key wrapper made in copy mode holds a copy of the first holder as it was then)
                        live = lambda L: [canon(b) for b in L.blocks if not isinstance(b, ParsingFailedBlock)]
                        if live(ref) != live(cur) or len(ref.blocks) != len(cur.blocks):
                            acc.violation({"oracle": "copy_mode_result_equals_inplace_result", "path": fname}, {"case": case, "observed": repr(canon(cur))[:300], "expected": repr(canon(ref))[:300]})
                except Exception as e:
                    acc.exception(e, case, fname)


def run_in_flight(acc):
    """Two passes in flight on one copying instance (C20's family): neither pass touches its input."""
    from .c20 import check_same_instance_in_flight

    check_same_instance_in_flight(acc, {"RemoveEnclosingMiddleware": mw.RemoveEnclosingMiddleware, "MonthLongStringMiddleware": mw.MonthLongStringMiddleware, "NormalizeFieldKeys": mw.NormalizeFieldKeys, "SortFieldsAlphabeticallyMiddleware": mw.SortFieldsAlphabeticallyMiddleware})


def run_write(li, acc):
    for spec in FORMATS:
        for stack_kw in ({}, {"prepend_middleware": []}):
            lib = base_library(li)
            fmt = BibtexFormat()
            fmt.indent, fmt.value_column, fmt.trailing_comma, fmt.block_separator = spec
            snap, fsnap = canon(lib), canon(fmt)
            case = {"write_library": li, "format": list(spec)}
            acc.trace(2)
            acc.case(nontrivial_key=("write", li, spec, bool(stack_kw)))
            try:
                t1 = bibtexparser.write_string(lib, bibtex_format=fmt, **stack_kw)
                try:  # a rejected write with the same format object in between
                    from .. import hostile

                    bibtexparser.write_string(hostile.libraries()[-5](), bibtex_format=fmt, **stack_kw)
                except Exception:
                    pass
                t2 = bibtexparser.write_string(lib, bibtex_format=fmt, **stack_kw)
                # the same blocks handed over in a temporary library that nobody else refers to (a selection written on
                # the fly): the blocks are the caller's all the same
                from bibtexparser.library import Library as _L

                bibtexparser.write_string(_L(list(lib.blocks)), bibtex_format=fmt, **stack_kw)
                t3 = bibtexparser.write_string(lib, bibtex_format=fmt, **stack_kw)
            except Exception as e:
                acc.raised["write:" + type(e).__name__] += 1
                continue
            acc.step(("lib", li), ("write", spec), ("text", t1))
            if canon(lib) != snap:
                acc.violation({"oracle": "write_leaves_library"}, {"case": case, "observed": "library changed", "expected": "unchanged"})
            elif canon(fmt) != fsnap:
                acc.violation({"oracle": "write_leaves_format"}, {"case": case, "observed": repr(vars(fmt)), "expected": list(spec)})
            elif t1 != t2 or t1 != t3:
                acc.violation({"oracle": "writing_twice_gives_identical_text", "after": "a plain second write" if t1 != t2 else "a write of the same blocks in a temporary library"}, {"case": case, "observed": t2 if t1 != t2 else t3, "expected": t1})


def run_shard(shard, tier, acc):
    if shard[0] == "write":
        run_write(shard[1], acc)
        return
    if shard[0] == "direct":
        run_direct(shard[1], acc)
        return
    if shard[0] == "factories":
        run_factories(acc)
        run_in_flight(acc)
        return
    if shard[0] == "spelled":
        run_spelled(shard[1], acc)
        return
    if shard[0] == "scale":
        # every middleware of the pool as a one-stage stack on a library of n blocks, and the write laws
        _, n, part = shard
        assert len(base_library(1000 + n).blocks) == n
        for mi in range(part, len(POOL), 4):
            run_stack(1000 + n, (mi,), acc, set())
        if part == 0:
            run_write(1000 + n, acc)
        return
    if shard[0] == "leak":
        # one long-lived instance over all libraries (forwards and backwards) must behave like fresh instances
        label, fac = POOL[shard[1]]
        from .. import hostile

        copy_mode = not label.startswith("SortBlocks") or True
        leak.run(fac, [(lambda i=i: base_library(i)) for i in range(NLIBS)], acc, label, poison=hostile.libraries(), judge=leak.copy_judge)
        return
    _, li, mi = shard
    maxd = 2 if tier == "quick" else 3
    judged = set()
    run_stack(li, (mi,), acc, judged)
    if maxd >= 2:
        for m2 in range(len(POOL)):
            run_stack(li, (mi, m2), acc, judged)
            if maxd >= 3:
                for m3 in range(len(POOL)):
                    run_stack(li, (mi, m2, m3), acc, judged)


def replay(case, acc):
    if "same_instance_in_flight" in case:
        run_in_flight(acc)
    elif "factory" in case:
        run_factories(acc)
    elif "spelled_library" in case:
        run_spelled(case["spelled_library"], acc)
    elif "direct_library" in case:
        run_direct(case["direct_library"], acc)
    elif "stack_idx" in case:
        run_stack(case["library"], tuple(case["stack_idx"]), acc, set())
    elif "leak" in case:
        # a long-lived instance: the whole sequence of that pool entry is the case
        idx = next((i for i, (label, _) in enumerate(POOL) if label == case["leak"]), None)
        if idx is not None:
            run_shard(("leak", idx), "quick", acc)
    else:
        run_write(case["write_library"], acc)


def unit_test(case):
    return "# library number (mc/checks/c07.py base_library) and middleware stack (labels from pool()):\n# " + repr(case) + "\n"


def ENV_SHARDS(tier):
    """The broad, cheap families: run again in a fresh interpreter per environment (engine.run_environments)."""
    return [s for s in shards('quick') if s[0] in ("write", "factories") or (s[0] == "spelled" and s[1] != len(DOCS) + 5)]

