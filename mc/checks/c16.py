"""C16 — block sorting is a stable permutation by (type, key) keeping comments attached (DESIGN 4/C16)."""
import itertools

from bibtexparser.library import Library
from bibtexparser.middlewares import SortBlocksByTypeAndKeyMiddleware
from bibtexparser.model import (
    DuplicateBlockKeyBlock,
    DuplicateFieldKeyBlock,
    Entry,
    ExplicitComment,
    Field,
    ImplicitComment,
    ParsingFailedBlock,
    Preamble,
    String,
)

from .. import leak
from ..canon import alias, canon, describe

ID = "C16"
LEAN = True  # cases are distinct by construction; see engine.Acc
RULE = (
    "libraries = every sequence of <=3 (quick) / <=4 (thorough) blocks over an 11-block universe (entries a, b, empty key, a second entry a that "
    "becomes a duplicate-key block; strings a, b; preamble; both comment kinds; a failed block; a duplicate-field block) x all 326 ordered "
    "sub-permutations of the five block types x both comment modes; the result is judged by the property itself (permutation, rank/key order, "
    "stability, comment runs, input untouched and unaliased), not by re-sorting. Non-trivial = library with >=2 blocks (distinct by (library, order, mode))."
)
ASSUMPTIONS = ["the position of a trailing comment-only run is not constrained (the property does not state one)"]
STATIC_SAMPLES = [{"library": ["Eb", "IC", "Ea"], "order": ["Entry"], "comments_on_top": True}]

TYPES = [String, Preamble, Entry, ImplicitComment, ExplicitComment]
TNAMES = [t.__name__ for t in TYPES]


def factories():
    return {
        "Ea": lambda i: Entry("article", "a", [Field("t", "1")], start_line=i, raw=f"@article{{a}}#{i}"),
        "Eb": lambda i: Entry("book", "b", [], start_line=i, raw=f"@book{{b}}#{i}"),
        "E_": lambda i: Entry("misc", "", [Field("u", "2")], start_line=i, raw=f"@misc{{}}#{i}"),
        "Ea2": lambda i: Entry("x", "a", [Field("v", "3")], start_line=i, raw=f"@x{{a}}#{i}"),
        "Sa": lambda i: String("a", "x", start_line=i, raw=f"@string{{a}}#{i}"),
        "Sb": lambda i: String("b", "y", start_line=i, raw=f"@string{{b}}#{i}"),
        "P": lambda i: Preamble("p", start_line=i, raw=f"@preamble#{i}"),
        "IC": lambda i: ImplicitComment("ic", start_line=i, raw=f"ic#{i}"),
        "EC": lambda i: ExplicitComment("ec", start_line=i, raw=f"@comment#{i}"),
        "F": lambda i: ParsingFailedBlock(error=Exception("e"), start_line=i, raw=f"@fail#{i}"),
        "DF": lambda i: DuplicateFieldKeyBlock({"x"}, Entry("y", "b", [Field("x", "1"), Field("x", "2")], start_line=i, raw=f"@y{{b}}#{i}")),
    }


NAMES = list(factories())
ORDERS = [tuple(p) for k in range(0, 6) for p in itertools.permutations(range(5), k)]


# orders that also name failed-block classes (any Block subclass may be listed): indices 5.. of TYPES_ALL
TYPES_ALL = TYPES + [ParsingFailedBlock, DuplicateFieldKeyBlock, DuplicateBlockKeyBlock]
LONG_ORDERS = [(0, 1, 2, 3, 4, 5), (0, 1, 2, 3, 4, 7), (5, 2), (6, 5, 2, 7), (2, 7, 6), (7,), (0, 1, 2, 3, 4, 5, 6, 7),
               (2, 0, 1, 2, 3, 4), (0, 0, 2), (4, 2, 4, 0)]  # (the last three name a type twice: its first position counts)
MID = ["Ea", "Ea2", "Eb", "IC", "Sa", "P"]  # sub-universe for libraries of middling length (5; thorough also 6 and 7)
MID_ORDERS = [0, 3, 40, 200, 325]


def bounds(tier):
    return {"universe": NAMES, "max_blocks": 3 if tier == "quick" else 4, "type_orders": len(ORDERS), "comment_modes": 2}


def shards(tier):
    maxb = 3 if tier == "quick" else 4
    out = [("short", 0), ("construction", 0), ("leak", 0), ("special", 0)] + [("mid", a) for a in MID] + [("big", n) for n in BIG_SIZES[tier]]
    for a in NAMES:
        for b in NAMES:
            out.append(("pre", a, b))
    return out


def build(names):
    """Blocks are identified by their raw tag '#<position>'; start lines run AGAINST the position order (a library
    need not be in file order: blocks are added, replaced, parsed into an existing library, sorted before)."""
    f = factories()
    n = len(names)
    blocks = []
    for i, name in enumerate(names):
        b = f[name](i)
        b._start_line_in_file = 10 * (n - i)
        if hasattr(b, "_ignore_error_block") and b.ignore_error_block is not None:
            b.ignore_error_block._start_line_in_file = 10 * (n - i)
        blocks.append(b)
    return Library(blocks)


def tag(b):
    return int(b.raw.rsplit("#", 1)[1])


def is_comment(b):
    return isinstance(b, (ImplicitComment, ExplicitComment))


def check(names, lib, order, on_top, acc):
    case = {"library": list(names), "order": [TYPES_ALL[i].__name__ for i in order], "comments_on_top": on_top}
    types = tuple(TYPES_ALL[i] for i in order)
    before = canon(lib)
    acc.trace()
    try:
        out = SortBlocksByTypeAndKeyMiddleware(block_type_order=types, preserve_comments_on_top=on_top).transform(lib)
    except Exception as e:
        acc.exception(e, case, "SortBlocksByTypeAndKeyMiddleware.transform", size=len(names) * 10 + len(order))
        acc.case()
        return False
    inp = lib.blocks
    res = out.blocks
    acc.case(sample=lambda: dict(case, result=[tag(b) for b in res]), nontrivial_key=(names, order, on_top) if len(names) >= 2 else None)
    acc.step(("lib", names), ("sort", order, on_top), tuple(tag(b) for b in res))
    acc.outcome(tuple(tag(b) for b in res))

    def bad(oracle, obs, exp, **sig):
        s = {"oracle": oracle, "comments_on_top": on_top}
        s.update(sig)
        acc.violation(s, {"case": case, "observed": obs, "expected": exp}, size=len(names) * 10 + len(order))
        return False

    if canon(lib) != before:
        return bad("input_unchanged", "input library changed", "unchanged")
    al = alias(lib, out)
    if al:
        return bad("input_not_aliased", [describe(o) for o in al[:3]], "no shared mutable object")
    if sorted(canon(b) for b in inp) != sorted(canon(b) for b in res):
        return bad("permutation_of_input_blocks", [type(b).__name__ for b in res], [type(b).__name__ for b in inp])
    pos_in = {tag(b): n for n, b in enumerate(inp)}
    if len(pos_in) != len(inp):
        return True  # the same object twice in a library: identities are not distinguishable, nothing more to decide

    def rank(b):
        t = type(b)
        return types.index(t) if t in types else len(types)

    def key(b):
        k = getattr(b, "key", "")
        return k if isinstance(k, str) else ""

    seq = res if not on_top else [b for b in res if not is_comment(b)]
    for x, y in zip(seq, seq[1:]):
        kx, ky = (rank(x), key(x)), (rank(y), key(y))
        if kx > ky:
            return bad("ordered_by_type_rank_then_key", [(type(b).__name__, key(b)) for b in seq], "non-decreasing (rank, key)", what="rank" if kx[0] > ky[0] else "key")
        if kx == ky and pos_in[tag(x)] > pos_in[tag(y)]:
            return bad("ties_keep_input_order", [tag(b) for b in seq], "input order among equal (rank, key)")
    if on_top:
        pos_out = {tag(b): n for n, b in enumerate(res)}
        for n, b in enumerate(inp):
            if is_comment(b):
                continue
            run = []
            m = n - 1
            while m >= 0 and is_comment(inp[m]):
                run.insert(0, tag(inp[m]))
                m -= 1
            o = pos_out[tag(b)]
            above = []
            m = o - 1
            while m >= 0 and is_comment(res[m]):
                above.insert(0, tag(res[m]))
                m -= 1
            if run and above[len(above) - len(run) :] != run:
                return bad("comment_run_stays_directly_above_its_block", above, run)
    return True


def same_object_above_several():
    sep = ImplicitComment("% ----", start_line=0, raw="% ----")
    e = lambda k, i: Entry("article", k, [], start_line=i, raw=f"@article{{{k}}}#{i}")
    return [sep, e("b", 1), sep, e("a", 2), sep, sep, e("c", 3)]


class UserExplicitComment(ExplicitComment):
    """A user's own comment class (e.g. one that remembers the file it came from)."""


class UserImplicitComment(ImplicitComment):
    pass


class UserEntry(Entry):
    pass


Entry_ = type("Entry", (Entry,), {"__doc__": "A user's class that is also called Entry (an unlisted type: the order names bibtexparser's)."})


def same_named_blocks():
    e = lambda k, i: Entry("article", k, [], start_line=i, raw=f"@article{{{k}}}#{i}")
    return [Entry_("article", "a", [], start_line=0, raw="@article{a}#user-class"), e("c", 1), String("b", "v", start_line=2, raw="@string{b}#2"), e("b", 3)]


def subclass_blocks():
    e = lambda k, i: Entry("article", k, [], start_line=i, raw=f"@article{{{k}}}#{i}")
    return [
        UserExplicitComment("above b", start_line=0, raw="@comment{above b}"),
        e("b", 1),
        UserImplicitComment("% above a", start_line=2, raw="% above a"),
        ExplicitComment("also above a", start_line=3, raw="@comment{also above a}"),
        e("a", 4),
        UserEntry("article", "0", [], start_line=5, raw="@article{0}#5"),
        UserImplicitComment("% above c", start_line=6, raw="% above c"),
        String("c", "v", start_line=7, raw="@string{c = v}#7"),
    ]


def run_special(acc):
    """(a) libraries holding structurally EQUAL blocks (the same preamble / comment / entry text twice, as when two files
    with the same header are merged): result must be a permutation and sorted; (b) keys outside ASCII: compared as the
    strings they are (code points), not case-folded or normalised."""
    twin = lambda: Preamble("p", start_line=5, raw="@preamble{p}")
    ctwin = lambda: ImplicitComment("% same", start_line=1, raw="% same")
    e = lambda k, i: Entry("article", k, [], start_line=i, raw=f"@article{{{k}}}#{i}")
    libs = [
        lambda: [twin(), e("a", 0), twin()],
        lambda: [ctwin(), twin(), ctwin(), twin(), e("b", 0), ctwin()],
        lambda: [e("b", 1), twin(), ctwin(), e("a", 2), twin(), twin()],
        lambda: [e("f", 0), e("e\u0301", 1), e("\xe9", 2), e("e", 3), e("E", 4), e("\u017f", 5), e("s", 6), e("\xdf", 7), e("ss", 8)],
        lambda: [e("\u0130", 0), e("i", 1), e("I", 2), e("\u0131", 3), e("i\u0307", 4)],
        same_object_above_several,
        # keys that compare only with their own kind (ints among entries, str elsewhere): with Entry listed, keys of different types never meet
        lambda: [Entry("article", 3, [], start_line=0, raw="@article{3}#0"), twin(), Entry("article", 1, [], start_line=1, raw="@article{1}#1"), String("b", "v", start_line=2, raw="@string{b}#2"), ctwin(), String("a", "v", start_line=3, raw="@string{a}#3")],
        # keys holding characters with a meaning in %-formats, templates and regular expressions
        lambda: [e("rate50%", 0), ctwin(), e("k%d", 1), e("a%b", 2), twin(), e("%s", 3), e("{0}", 4), e("a.b", 5), e("a+b", 6), e("a|b", 7), e("\\1", 8)],
        subclass_blocks,
        same_named_blocks,
        lambda: subclass_blocks()[:5],
        lambda: subclass_blocks()[::-1],
    ]
    for n, mk in enumerate(libs):
        for order in (ORDERS[0], ORDERS[3], ORDERS[30], ORDERS[-1]):
            for on_top in (True, False):
                types = tuple(TYPES[i] for i in order)
                lib = Library(mk())
                inp = list(lib.blocks)
                if any(isinstance(getattr(b, "key", ""), int) for b in inp) and Entry not in types:
                    continue  # (int keys and str keys would share a rank: not comparable by nature)
                case = {"special_library": n, "order": [TNAMES[i] for i in order], "comments_on_top": on_top}
                acc.trace()
                acc.case(nontrivial_key=("special", n, order, on_top))
                try:
                    res = SortBlocksByTypeAndKeyMiddleware(block_type_order=types, preserve_comments_on_top=on_top).transform(lib).blocks
                except Exception as ex:
                    acc.exception(ex, case, "SortBlocksByTypeAndKeyMiddleware.transform")
                    continue
                acc.step(("special", n), ("sort", order, on_top), tuple(type(b).__name__ for b in res))
                if sorted((canon(b) for b in inp), key=repr) != sorted((canon(b) for b in res), key=repr):
                    acc.violation({"oracle": "permutation_of_input_blocks", "comments_on_top": on_top}, {"case": case, "observed": [type(b).__name__ for b in res], "expected": [type(b).__name__ for b in inp]})
                    continue
                rank = lambda b: types.index(type(b)) if type(b) in types else len(types)
                key = lambda b: getattr(b, "key", "") if isinstance(getattr(b, "key", ""), str) else ""
                seq = res if not on_top else [b for b in res if not is_comment(b)]
                if on_top:
                    # every non-comment block keeps exactly as many comments directly above it as it had
                    def runs(bl):
                        out, n_ = {}, 0
                        for b in bl:
                            if is_comment(b):
                                n_ += 1
                            else:
                                out[b.raw] = n_
                                n_ = 0
                        return out

                    if len({b.raw for b in inp if not is_comment(b)}) == len([b for b in inp if not is_comment(b)]) and any(runs(res).get(r, -1) < k for r, k in runs(inp).items()):  # (a trailing comment-only run may land above any block: more is fine)
                        acc.violation(
                            {"oracle": "comment_run_stays_directly_above_its_block", "comments_on_top": True},
                            {"case": case, "observed": [getattr(b, "key", "%") for b in res], "expected": "each block keeps the comments directly above it"},
                        )
                        continue
                for x, y in zip(seq, seq[1:]):
                    if (rank(x), key(x)) > (rank(y), key(y)):
                        acc.violation(
                            {"oracle": "ordered_by_type_rank_then_key", "comments_on_top": on_top, "what": "key (non-ASCII / equal blocks)"},
                            {"case": case, "observed": [(type(b).__name__, key(b)) for b in seq], "expected": "non-decreasing (rank, key) by plain string comparison"},
                        )
                        break


BIG_SIZES = {"quick": [255, 256, 257, 1023, 1024, 1025, 1337, 2049, 3100], "thorough": [255, 256, 257, 1023, 1024, 1025, 1337, 2049, 3100, 4097, 8193, 16385]}


def big_library(n, lead):
    """n blocks: `lead` @string blocks, then entries whose keys are in no particular order (ties included), a comment run
    above every seventh block and above the blocks around every power of two; tagged by position like every library here."""
    blocks = []
    for i in range(n):
        near_pow2 = any(abs(i - (1 << k)) <= 2 for k in range(6, 15))
        if i < lead:
            blocks.append(String(f"s{(i * 7) % 5}", "v", start_line=n - i, raw=f"@string#{i}"))
        elif (i % 7 == 3 or near_pow2) and i + 1 < n:
            blocks.append((ImplicitComment if i % 2 else ExplicitComment)(f"c{i}", start_line=n - i, raw=f"c#{i}"))
        else:
            blocks.append(Entry("article", f"k{(i * 7919) % 501:03d}", [], start_line=n - i, raw=f"@article#{i}"))
    return Library(blocks)


def check_big(n, acc):
    for lead in range(4):
        for order, on_top in (((0, 1, 2, 3, 4), True), ((2, 0), True), ((0, 1, 2, 3, 4), False)):
            acc.count("big_libraries")
            check(("big", n, lead), big_library(n, lead), order, on_top, acc)


class _ReenteringEntry(Entry):
    """A user's Entry subclass whose copy hook uses the SAME sorter instance on another library while the first sort is
    copying its blocks (think: a block that keeps a sorted index of its cross-references) - once, then it is a plain copy."""

    hook = None  # [sorter, other_library, results]

    def __deepcopy__(self, memo):
        h = type(self).hook
        if h is not None:
            type(self).hook = None
            try:
                h[2].append(("ok", [tag(b) for b in h[0].transform(h[1]).blocks]))
            except Exception as ex:
                h[2].append(("raised", type(ex).__name__))
        new = Entry.__new__(type(self))
        import copy as _c

        new.__dict__.update(_c.deepcopy(self.__dict__, memo))
        return new


def check_sort_in_flight(acc):
    """Two sorts in flight on one sorter instance: the outer one is what it is without the inner one, the inner one what it
    is alone (inline from a block's copy hook, and from a second thread started there)."""
    outer_names = ("IC", "Eb", "Sa", "EC", "Ea", "P")
    inner_names = ("Ea2", "IC", "Eb", "Sa")
    for order in (ORDERS[0], ORDERS[3], ORDERS[-1]):
        types = tuple(TYPES[i] for i in order)
        for on_top in (True, False):
            for pos in (0, 3, 6):
                for threaded in (False, True):
                    case = {"sort_in_flight": [list(order), on_top, pos, threaded]}
                    acc.trace(2)
                    acc.case(nontrivial_key=("sort-in-flight", order, on_top, pos, threaded))
                    acc.count("sorts_in_flight")
                    mk = lambda: SortBlocksByTypeAndKeyMiddleware(block_type_order=types, preserve_comments_on_top=on_top)
                    hooked = lambda: _ReenteringEntry("article", "m", [], start_line=0, raw="@article{m}#99")
                    def build_outer():
                        lib0 = build(outer_names)
                        bl = list(lib0.blocks)
                        bl.insert(pos, hooked())
                        return Library(bl)
                    try:
                        exp_outer = [tag(b) for b in mk().transform(build_outer()).blocks]
                        exp_inner = ("ok", [tag(b) for b in mk().transform(build(inner_names)).blocks])
                        sorter = mk()
                        results = []
                        if threaded:
                            import threading

                            class _T:
                                def transform(self, lib):
                                    box = []
                                    t = threading.Thread(target=lambda: box.append(sorter.transform(lib)))
                                    t.start()
                                    t.join()
                                    return box[0]

                            _ReenteringEntry.hook = [_T(), build(inner_names), results]
                        else:
                            _ReenteringEntry.hook = [sorter, build(inner_names), results]
                        got = [tag(b) for b in sorter.transform(build_outer()).blocks]
                    except Exception as ex:
                        acc.exception(ex, case, "SortBlocksByTypeAndKeyMiddleware.transform")
                        continue
                    finally:
                        _ReenteringEntry.hook = None
                    acc.step(("sort", order, on_top), ("inner at", pos, threaded), tuple(got))
                    if got != exp_outer:
                        acc.violation({"oracle": "outer_sort_unaffected_by_a_sort_in_flight", "comments_on_top": on_top}, {"case": case, "observed": got, "expected": exp_outer})
                    elif not results or results[0] != exp_inner:
                        acc.violation({"oracle": "inner_sort_in_flight_equals_sort_alone", "comments_on_top": on_top}, {"case": case, "observed": repr(results[:1]), "expected": repr(exp_inner)})


def check_flag_readings(acc):
    """`preserve_comments_on_top` is annotated bool; a non-bool (1, 0, "yes", None) must still mean ONE thing: the sorter
    behaves on every library as the True configuration or as the False configuration does, throughout."""
    libs = [("IC", "Eb", "Ea"), ("EC", "IC", "Eb", "Sa", "Ea"), ("Ea", "IC"), ("P", "IC", "Sa", "EC", "Ea2")]
    for flag in (1, 0, "yes", "", None, 2.0):
        outs = {}
        for name, f in (("flag", flag), ("True", True), ("False", False)):
            res = []
            for names in libs:
                for order in (ORDERS[0], ORDERS[3], ORDERS[-1]):
                    types = tuple(TYPES[i] for i in order)
                    try:
                        res.append(tuple(tag(b) for b in SortBlocksByTypeAndKeyMiddleware(block_type_order=types, preserve_comments_on_top=f).transform(build(names)).blocks))
                    except Exception as ex:
                        res.append(("raised", type(ex).__name__))
            outs[name] = res
        acc.trace(len(libs) * 9)
        acc.case(nontrivial_key=("flag-reading", repr(flag)))
        if flag in (0, 1) and outs["flag"] != outs[str(bool(flag))]:
            # 1 == True and 0 == False: the same configuration value, spelled as an int
            acc.violation({"oracle": "flag_1_is_on_and_0_is_off", "comments_on_top": repr(flag)}, {"case": {"flag_reading": repr(flag)}, "observed": outs["flag"][:6], "expected": outs[str(bool(flag))][:6]})
        elif outs["flag"] not in (outs["True"], outs["False"]):
            acc.violation({"oracle": "a_non_bool_flag_means_one_thing", "comments_on_top": repr(flag)}, {"case": {"flag_reading": repr(flag)}, "observed": outs["flag"][:6], "expected": "as preserve_comments_on_top=True throughout, or as False throughout"})


def run_libs(libs, acc):
    for names in libs:
        lib = build(names)
        acc.count("libraries")
        for order in ORDERS + LONG_ORDERS:
            for on_top in (True, False):
                if not check(names, lib, order, on_top, acc):
                    lib = build(names)


ORDER_CONFIGS = [(o, t) for o in ((0, 1, 2, 3, 4), (2, 0), (), (4, 3, 2, 1, 0), (2, 7, 6), (7,)) for t in (True, False)]
ORDER_PROBE_LIBS = [("IC", "Eb", "Ea", "Sa", "P"), ("EC", "IC", "Eb", "Sa", "Ea", "Ea2"), ("Ea", "IC"), ("P", "IC", "Sa", "EC", "Ea2", "Eb")]


def order_behaviour(cfg):
    o, t = cfg
    m = SortBlocksByTypeAndKeyMiddleware(block_type_order=tuple(TYPES_ALL[i] for i in o), preserve_comments_on_top=t)
    out = []
    for names in ORDER_PROBE_LIBS:
        try:
            out.append([tag(b) for b in m.transform(build(names)).blocks])
        except Exception as ex:
            out.append(["raised", type(ex).__name__])
    return out

def check_construction_order(acc):
    """mc/order.py: every ordered pair of configurations, against each configuration first in a fresh interpreter."""
    import sys

    from .. import order

    order.run(sys.modules[__name__], acc, group=lambda cfg: 0)


def run_shard(shard, tier, acc):
    maxb = 3 if tier == "quick" else 4
    if shard[0] == "construction":
        return check_construction_order(acc)
    if shard[0] == "big":
        return check_big(shard[1], acc)
    if shard[0] == "short":
        run_libs([()] + [(a,) for a in NAMES], acc)
        return
    if shard[0] == "special":
        check_sort_in_flight(acc)
        check_flag_readings(acc)
        return run_special(acc)
    if shard[0] == "mid":
        for n in (5,) if tier == "quick" else (5, 6, 7):
            for rest in itertools.product(MID, repeat=n - 1):
                names = (shard[1],) + rest
                lib = build(names)
                acc.count("mid_libraries")
                for oi in MID_ORDERS:
                    for on_top in (True, False):
                        if not check(names, lib, ORDERS[oi], on_top, acc):
                            lib = build(names)
        return
    if shard[0] == "leak":
        libs = [(a, b, c) for a in NAMES[:6] for b in NAMES[3:] for c in NAMES[::3]]
        inputs = [(lambda n=n: build(n)) for n in libs]
        for order in (ORDERS[0], ORDERS[3], ORDERS[40], ORDERS[200], ORDERS[-1]):
            for on_top in (True, False):
                types = tuple(TYPES[i] for i in order)
                from .. import hostile

                leak.run(lambda t=types, o=on_top: SortBlocksByTypeAndKeyMiddleware(block_type_order=t, preserve_comments_on_top=o), inputs, acc, f"SortBlocks({[TNAMES[i] for i in order]},{on_top})", case_of=lambda i: list(libs[i]), poison=hostile.libraries(), judge=leak.copy_judge)
        return
    _, a, b = shard
    libs = [(a, b)]
    for n in range(3, maxb + 1):
        libs += [(a, b) + rest for rest in itertools.product(NAMES, repeat=n - 2)]
    run_libs(libs, acc)


def replay(case, acc):
    if "construction_order" in case:
        return check_construction_order(acc)
    if "flag_reading" in case:
        return check_flag_readings(acc)
    if "sort_in_flight" in case:
        return check_sort_in_flight(acc)
    if "special_library" in case:
        return run_special(acc)
    if "leak" in case:
        return run_shard(("leak", 0), "quick", acc)
    names = tuple(case["library"])
    if names[:1] == ("big",):
        return check_big(names[1], acc)
    order = tuple([t.__name__ for t in TYPES_ALL].index(t) for t in case["order"])
    # history of the run: sorters with every other order were built before this one (state kept on the class, if any)
    allo = ORDERS + LONG_ORDERS
    upto = allo.index(order) if order in allo else len(allo)
    for o in allo + allo[:upto]:  # (the sorters the shard built before this one: a whole pass for the library before, then this library's)
        SortBlocksByTypeAndKeyMiddleware(block_type_order=tuple(TYPES_ALL[i] for i in o))
    check(names, build(names), order, case["comments_on_top"], acc)


def unit_test(case):
    return "# library (names from mc/checks/c16.py universe), block_type_order, preserve_comments_on_top:\n# " + repr(case) + "\n"


def ENV_SHARDS(tier):
    """The broad, cheap families: run again in a fresh interpreter per environment (engine.run_environments)."""
    return [s for s in shards('quick') if s[0] in ("short", "special", "leak")]

