"""C18 — LaTeX en/decoding touches only text values, round-trips, and contains errors (DESIGN 4/C18)."""
import bibtexparser
import itertools
import re

from bibtexparser.library import Library
from bibtexparser.middlewares import LatexDecodingMiddleware, LatexEncodingMiddleware
from bibtexparser.middlewares.names import NameParts
from bibtexparser.model import (
    Entry,
    ExplicitComment,
    Field,
    ImplicitComment,
    MiddlewareErrorBlock,
    ParsingFailedBlock,
    Preamble,
    String,
)

from .. import bigdocs
from ..canon import canon
from ..engine import seq_iter, seq_shards

ID = "C18"
LEAN = True  # cases are distinct by construction; see engine.Acc
RULE = (
    "(a) round trip decode(encode(t)) == t for every token sequence up to the bound over a text alphabet (letters, digit, space, accented Latin "
    "letters, punctuation, TeX special characters, $...$ math tokens, URL tokens) under keep_math x enclose_urls, through field values and "
    "@string values, with fresh and with long-lived middleware instances; (b) scope and types on a catalogue library (str, int, list, NameParts "
    "values, @string, failed blocks) under every constructor option incl. custom converters, in-place and copy; (c) containment of converter "
    "failures. Non-trivial = text containing a non-ASCII letter, a TeX special, math or a URL (distinct by (text, options))."
)
ASSUMPTIONS = [
    "decided for pylatexenc as installed in /venv (third-party converter)",
    "texts whose math/URL structure is ambiguous in themselves are outside the alphabet (DESIGN 3.2): ligature sequences, '^', '\"', more than one lone '$', "
    "a lone '$' next to a math token, adjacent math tokens, a backslash directly before '$'",
]
STATIC_SAMPLES = ["é & $a_1$ http://a.b/c_d"]

LETTERS = ["a", "B", "1", " ", "\xa0", "\t"]
ACCENTED = ["é", "ü", "ñ", "ç", "ø", "ß", "Å", "æ"]
PUNCT = [".", ",", ";", ":", "-", "(", ")", "!", "?", "'", "/", "|", "@", "*", "+", "=", "[", "]"]
SPECIAL = ["&", "%", "#", "_", "$", "{", "}", "~", "\\", "<", ">"]
MATH = ["$x+y$", "$a_1$", "$5\\$+3\\$-x$"]  # (the last: a formula holding two escaped dollar signs)
URLS = ["http://a.b/c", "http://a.b/c_d", "www.x.org"]
NOT_URLS = ["HTTP://A.B/c", "WWW.X.ORG", "Http://a.b"]  # upper / mixed case: ordinary text for the URL rule, so any character may follow
SIGMA = LETTERS + ACCENTED + PUNCT + SPECIAL + MATH + URLS + NOT_URLS
SIGMA_CORE = ["a", " ", "\xe9", "&", "%", "$a_1$", "http://a.b/c", "~"]
OPTIONS = [(True, True), (True, False), (False, True), (False, False)]  # (keep_math, enclose_urls)


def bounds(tier):
    return {"alphabet": SIGMA, "max_len": 3 if tier == "quick" else 4, "encoder_options": ["keep_math x enclose_urls"], "decoder": "default"}


def shards(tier):
    out = [("rt", s) for s in seq_shards(SIGMA, 3 if tier == "quick" else 4, prefix_len=2 if tier == "quick" else 2)]
    out += [("state", 0), ("scope", 0), ("contain", 0), ("construction", 0), ("long", 0)]
    # texts of middling length over a core alphabet: letter, blank, accented letter, &, %, math, URL, tilde
    out += [("core", s) for s in seq_shards(SIGMA_CORE, 5 if tier == "quick" else 7, min_len=4 if tier == "quick" else 5, prefix_len=2)]
    out += [("big", n) for n in (bigdocs.SIZES_QUICK if tier == "quick" else bigdocs.SIZES_THOROUGH)]
    return out


def in_domain(toks, text):
    """The exclusions of DESIGN 3.2 (ambiguous texts), stated on the token sequence."""
    if "--" in text or "``" in text or "''" in text or "!`" in text or "?`" in text:
        return False
    lone = sum(1 for t in toks if t == "$")
    nmath = sum(1 for t in toks if t in MATH)
    if lone > 1 or (lone and nmath):
        return False
    for a, b in zip(toks, toks[1:]):
        if a in MATH and b in MATH:
            return False
        if a == "\\" and (b in MATH or b == "$"):
            return False
    return True


_ENC = {}
_DEC = {}


def encoder(opt):
    if opt not in _ENC:
        _ENC[opt] = LatexEncodingMiddleware(keep_math=opt[0], enclose_urls=opt[1])
    return _ENC[opt]


def decoder():
    if 0 not in _DEC:
        _DEC[0] = LatexDecodingMiddleware()
    return _DEC[0]


def conv(m, text, kind="field"):
    """Run a text through middleware m inside a field (or an @string); returns the converted str or ('error', ...)."""
    if kind == "field":
        lib = Library([Entry("article", "k", [Field("t", text)])])
    else:
        lib = Library([String("s", text)])
    out = m.transform(lib)
    b = out.blocks[0]
    if isinstance(b, MiddlewareErrorBlock):
        return ("error", str(b.error)[:80])
    v = b.fields[0].value if kind == "field" else b.value
    return v


def url_cause(text, opt):
    if not opt[1]:
        return None
    for w in re.split(r"\s+", text):
        m = re.search(r"(https?://\S*\.\S*|www.\S*\.\S*)", w)
        # exactly the characters that \\url{...} carries verbatim and the third-party decoder then interprets
        if m and re.search(r"[$%&\\{}~]", m.group(1)):
            return "url_with_tex_special"
    return None


def check_text(toks, acc, opts=OPTIONS, fresh=False, case=None):
    text = "".join(toks)
    if not in_domain(toks, text):
        acc.count("outside_domain")
        return
    nontrivial = any(t in ACCENTED or t in SPECIAL or t in MATH or t in URLS for t in toks)
    for opt in opts:
        acc.trace(2)
        c = case if case is not None else {"tokens": list(toks), "options": list(opt)}
        acc.case(sample=lambda: {"text": text, "options": list(opt)}, nontrivial_key=(text, opt) if nontrivial else None)
        try:
            e = LatexEncodingMiddleware(keep_math=opt[0], enclose_urls=opt[1]) if fresh else encoder(opt)
            d = LatexDecodingMiddleware() if fresh else decoder()
            enc = conv(e, text)
            back = conv(d, enc) if isinstance(enc, str) else enc
        except Exception as ex:
            acc.violation({"oracle": "no_exception", "exception": type(ex).__name__}, {"case": c, "observed": repr(ex), "expected": "no exception"}, size=len(text))
            continue
        s = acc.step(("t", text), ("encode", opt), ("latex", canon(enc)))
        acc.transition(s, "decode", acc.state(("t", canon(back))))
        acc.outcome(canon(enc))
        if back != text:
            cause = url_cause(text, opt)
            sig = {"oracle": "roundtrip", "cause": cause or "other"}
            if cause is None:
                sig["keep_math"], sig["enclose_urls"] = opt
                sig["has_math"] = any(t in MATH or t == "$" for t in toks)
                sig["has_url"] = any(t in URLS for t in toks)
            acc.violation(sig, {"case": c, "text": text, "encoded": enc, "observed": back, "expected": text}, size=len(text))


def check_state(acc):
    """Long-lived instances and process-level state: encode every short text first, then round-trip all of them, also through
    @string blocks, and compare with fresh instances."""
    texts = [toks for n in (1, 2) for toks in itertools.product(SIGMA, repeat=n) if in_domain(toks, "".join(toks))]
    for opt in OPTIONS:
        e = LatexEncodingMiddleware(keep_math=opt[0], enclose_urls=opt[1])
        d = LatexDecodingMiddleware()
        encs = {}
        for toks in texts:
            acc.trace()
            encs[toks] = conv(e, "".join(toks))
        for toks in texts:
            text = "".join(toks)
            acc.trace(3)
            acc.case(nontrivial_key=("state", text, opt))
            enc = encs[toks]
            if not isinstance(enc, str):
                continue
            back = conv(d, enc)
            fresh_back = conv(LatexDecodingMiddleware(), conv(LatexEncodingMiddleware(keep_math=opt[0], enclose_urls=opt[1]), text))
            sback = conv(d, conv(e, text, "string"), "string")
            c = {"state_text": text, "options": list(opt)}
            # the same text carried by blocks that earlier stages left their notes on (enclosings removed by the
            # default parse stack: none / braces / quotes; resolved references): the notes are not the value
            try:
                carrier = bibtexparser.parse_string('@string{s = 12}\n@string{r = "q"}\n@article{k, t = 2020, u = {x}, v = "y", w = r}')
                for f in carrier.entries[0].fields:
                    f.value = text
                for st in carrier.strings:
                    st.value = text
                rt = d.transform(e.transform(carrier))
                carried = [("field " + f.key, f.value) for f in rt.entries[0].fields] + [("string " + st.key, st.value) for st in rt.strings]
                if len(rt.blocks) != 3 or len(carried) != 6:
                    carried = [("blocks", [type(b).__name__ for b in rt.blocks])]
            except Exception as ex:
                acc.violation({"oracle": "no_exception", "exception": type(ex).__name__}, {"case": c, "observed": repr(ex), "expected": "no exception"}, size=len(text))
                continue
            wrong = [(k, v) for k, v in carried if v != back]
            if wrong and back == fresh_back:
                acc.violation({"oracle": "conversion_independent_of_metadata_left_by_earlier_stages", "where": wrong[0][0].split()[0]}, {"case": c, "text": text, "observed": wrong[:3], "expected": back}, size=len(text))
                continue
            if back != fresh_back:
                acc.violation({"oracle": "long_lived_instance_equals_fresh"}, {"case": c, "text": text, "observed": back, "expected": fresh_back}, size=len(text))
            elif sback != back:
                acc.violation({"oracle": "string_block_converted_like_field"}, {"case": c, "text": text, "observed": sback, "expected": back}, size=len(text))


# -- (b) scope and types ------------------------------------------------------------------------------------
class Upper:
    """A custom converter: upper-cases (so every str visibly changes)."""

    def unicode_to_latex(self, s):
        return s.upper()

    def latex_to_text(self, s):
        return s.upper()


class Boom:
    """A custom converter failing on a marker substring (with any exception type)."""

    exc = ValueError

    def unicode_to_latex(self, s):
        if "BOOM" in s:
            raise self.exc("boom in " + s)
        return s + "!"

    latex_to_text = unicode_to_latex


class MyError(Exception):
    pass


class FalsyBoom(Boom):
    """A custom converter that is falsy (it has a length: the number of strings seen, 0 when handed in)."""

    def __init__(self):
        self.seen = []

    def __len__(self):
        return len(self.seen)

    def unicode_to_latex(self, s):
        self.seen.append(s)
        return Boom.unicode_to_latex(self, s)

    latex_to_text = unicode_to_latex


class ArgsBoom:
    """A converter failing with exceptions whose arguments are not text (KeyError(7), OSError(2, ...), no arguments),
    on values that hold %-format and template characters."""

    def __init__(self, make):
        self.make = make

    def unicode_to_latex(self, s):
        if "BOOM" in s:
            raise self.make()
        return s + "!"

    latex_to_text = unicode_to_latex


class Reentrant:
    """A converter through which the SAME middleware instance is entered again for another entry while it is in the
    middle of one (what a parallel run of an `allow_parallel_execution` middleware interleaves; here deterministic)."""

    def __init__(self):
        self.mw = None
        self.inner = None
        self.inner_result = None

    def unicode_to_latex(self, s):
        if "BOOM" in s:
            raise ValueError("boom in " + s)
        if "NEST" in s and self.inner is not None:
            inner, self.inner = self.inner, None
            self.inner_result = self.mw.transform_entry(inner, None)
        return s + "!"

    latex_to_text = unicode_to_latex


ARG_EXCS = [("KeyError(7)", lambda: KeyError(7)), ("OSError(2, 'x')", lambda: OSError(2, "x")), ("ValueError()", lambda: ValueError()), ("ValueError(None)", lambda: ValueError(None)), ("MyError(('a', 1))", lambda: MyError(("a", 1))), ("ValueError('100% {0} %s')", lambda: ValueError("100% {0} %s"))]


def boom_variants():
    for exc in (ValueError, RuntimeError, TypeError, KeyError, IndexError, RecursionError, AttributeError, MyError, UnicodeError):
        b = Boom()
        b.exc = exc
        yield b
    yield FalsyBoom()  # (the converter the caller gave is the converter used, whatever its truth value)


_ME = []


def _mapping_entry():
    if not _ME:
        from ..subtypes import mapping_entry_class

        _ME.append(mapping_entry_class())
    return _ME[0]


def catalogue():
    np = NameParts(first=["Jos\\'e", "é"], von=["de"], last=["Müller"], jr=["Jr"])
    e = Entry(
        "Article",
        "Ké_y",
        [
            Field("Tïtle", "Caf\\'e é & 100% {x}", 5),
            Field("year", 1990, 6),
            Field("authors", ["A é", "B \\'e"], 7),
            Field("author", [NameParts(first=["É"], last=["ü \\\"u"])], 8),
            Field("editor", np, 9),
            Field("none", None, 10),
            Field("url", "http://a.b/c_d é", 11),
        ],
        start_line=4,
        raw="@Article{Ké_y, ... é \\'e}",
    )
    e.parser_metadata["m"] = {"é": ["\\'e"]}
    ME = _mapping_entry()
    return [
        e,
        String("sé", "str é \\'e", 20, "@string{sé = ...}"),
        String("n", 5, 21, "@string{n = 5}"),
        Preamble("pre é \\'e", 22, "@preamble{pre é}"),
        ImplicitComment("ic é \\'e", 23, "ic é"),
        ExplicitComment("ec é \\'e", 24, "@comment{ec é}"),
        ParsingFailedBlock(Exception("é"), 25, "@bad{é \\'e", Entry("x", "é", [Field("f", "é \\'e")])),
        # a user's Entry subclass that is sized and iterable like a mapping of its fields - with fields and without (falsy)
        ME("misc", "mé", [Field("t", "m é \\'e", 31), Field("n", 3, 32)], 30, "@misc{mé, ...}"),
        ME("misc", "m0", [], 33, "@misc{m0}"),
    ]


def mw_variants():
    out = []
    for ip in (True, False):
        for km, eu in itertools.product((None, True, False), (None, True, False)):
            out.append((f"enc(keep_math={km},enclose_urls={eu},inplace={ip})", lambda ip=ip, km=km, eu=eu: LatexEncodingMiddleware(keep_math=km, enclose_urls=eu, allow_inplace_modification=ip)))
        for kb, km in itertools.product((None, True, False), (None, True, False)):
            out.append((f"dec(keep_braced_groups={kb},keep_math_mode={km},inplace={ip})", lambda ip=ip, kb=kb, km=km: LatexDecodingMiddleware(keep_braced_groups=kb, keep_math_mode=km, allow_inplace_modification=ip)))
        out.append((f"enc(custom,inplace={ip})", lambda ip=ip: LatexEncodingMiddleware(encoder=Upper(), allow_inplace_modification=ip)))
        out.append((f"dec(custom,inplace={ip})", lambda ip=ip: LatexDecodingMiddleware(decoder=Upper(), allow_inplace_modification=ip)))
    return out


def scope_view(b):
    """(what must stay, [(path, value)] of what may change)."""
    if isinstance(b, Entry) and not isinstance(b, ParsingFailedBlock):
        fixed = [type(b).__name__, b.entry_type, b.key, b.start_line, b.raw, canon(b.parser_metadata), [f.key for f in b.fields], [f.start_line for f in b.fields]]
        var = []
        for f in b.fields:
            v = f.value
            if isinstance(v, str):
                var.append((f.key, "str"))
            elif isinstance(v, NameParts):
                fixed.append((f.key, "NameParts", [len(v.first), len(v.von), len(v.last), len(v.jr)]))
                var.append((f.key, "nameparts"))
            else:
                fixed.append((f.key, canon(v)))
        return fixed, var
    if isinstance(b, String):
        fixed = ["String", b.key, b.start_line, b.raw, canon(b.parser_metadata)]
        if not isinstance(b.value, str):
            fixed.append(canon(b.value))
        return fixed, [("value", "str")] if isinstance(b.value, str) else []
    return [canon(b)], []


def check_scope(acc):
    for label, fac in mw_variants():
        lib = Library(catalogue())
        ref = Library(catalogue())
        case = {"scope": label}
        acc.trace()
        acc.case(nontrivial_key=("scope", label))
        try:
            out = fac().transform(lib)
        except Exception as ex:
            acc.violation({"oracle": "no_exception", "exception": type(ex).__name__}, {"case": case, "observed": repr(ex), "expected": "no exception"})
            continue
        acc.step(("catalogue",), label, tuple(type(b).__name__ for b in out.blocks))
        if len(out.blocks) != len(ref.blocks):
            acc.violation({"oracle": "scope_block_count"}, {"case": case, "observed": len(out.blocks), "expected": len(ref.blocks)})
            continue
        for o, r in zip(out.blocks, ref.blocks):
            if isinstance(o, MiddlewareErrorBlock) and not isinstance(r, MiddlewareErrorBlock):
                o = o.ignore_error_block  # a conversion error of the third-party converter: containment, judged in (c)
            fo, vo = scope_view(o)
            fr, vr = scope_view(r)
            if fo != fr or vo != vr:
                what = "types" if vo != vr else "untouched_parts"
                acc.violation(
                    {"oracle": "only_text_values_change", "block": type(r).__name__, "what": what},
                    {"case": case, "observed": [fo, vo], "expected": [fr, vr]},
                )
                break
            if isinstance(r, Entry):
                for f_o, f_r in zip(o.fields, r.fields):
                    if isinstance(f_r.value, NameParts):
                        v = f_o.value
                        if not all(isinstance(x, str) for part in (v.first, v.von, v.last, v.jr) for x in part):
                            acc.violation({"oracle": "name_part_strings_stay_strings"}, {"case": case, "observed": repr(v), "expected": "lists of str"})
            if isinstance(r, String) and isinstance(r.value, str) and not isinstance(o.value, str):
                acc.violation({"oracle": "string_value_stays_str"}, {"case": case, "observed": repr(o.value), "expected": "str"})
        # custom converter must actually have been applied to all three kinds of text (non-vacuity of the scope claim)
        if "custom" in label:
            e = out.blocks[0]
            got = (e.fields[0].value, e.fields[4].value.last, out.blocks[1].value)
            exp = ("CAF\\'E É & 100% {X}", ["MÜLLER"], "STR É \\'E")
            if got != exp:
                acc.violation({"oracle": "custom_converter_applied_to_fields_nameparts_strings"}, {"case": case, "observed": list(got), "expected": list(exp)})


def check_big(n, acc):
    """A library of many blocks: every block comes back, in order, with its key, type, raw text and start line."""
    import bibtexparser

    text, _ = bigdocs.document(n, 1)
    for which in ("enc", "dec", "enc+dec"):
        for ip in (True, False):
            lib = bibtexparser.parse_string(text)
            before = [(type(b).__name__, getattr(b, "key", None), b.start_line, b.raw, [f.key for f in getattr(b, "fields", [])]) for b in lib.blocks]
            vals = [[f.value for f in b.fields] for b in lib.blocks if isinstance(b, Entry)]
            case = {"big": n, "middleware": which, "inplace": ip}
            acc.trace()
            acc.case(nontrivial_key=("big", n, which, ip))
            try:
                out = lib
                if "enc" in which:
                    out = LatexEncodingMiddleware(allow_inplace_modification=ip).transform(out)
                if "dec" in which:
                    out = LatexDecodingMiddleware(allow_inplace_modification=ip).transform(out)
            except Exception as ex:
                acc.violation({"oracle": "no_exception", "exception": type(ex).__name__}, {"case": case, "observed": repr(ex), "expected": "no exception"}, size=n)
                continue
            after = [(type(b).__name__, getattr(b, "key", None), b.start_line, b.raw, [f.key for f in getattr(b, "fields", [])]) for b in out.blocks]
            acc.step(("big", n), which, len(after))
            if after != before:
                acc.violation(
                    {"oracle": "only_text_values_change", "block": "big library", "what": "block_count" if len(after) != len(before) else "untouched_parts"},
                    {"case": case, "observed": f"{len(after)} blocks", "expected": f"{len(before)} blocks with the same keys, types, raw texts and start lines"},
                    size=n,
                )
                continue
            if which == "enc+dec":
                vals2 = [[f.value for f in b.fields] for b in out.blocks if isinstance(b, Entry)]
                # (values holding characters the property excludes - '"', '^', ligature sequences - are not compared)
                dom = lambda v: isinstance(v, str) and not any(x in v for x in ('"', "^", "--", "``", "''", "!`", "?`"))
                vals2 = [[a for a, b in zip(x, y) if dom(b)] for x, y in zip(vals2, vals)]
                vals = [[b for b in y if dom(b)] for y in vals]
                if vals2 != vals:
                    i = next(i for i, (a, b) in enumerate(zip(vals2, vals)) if a != b)
                    acc.violation({"oracle": "roundtrip", "cause": "big library"}, {"case": case, "observed": vals2[i], "expected": vals[i]}, size=n)


LONG_LENGTHS = {"quick": [255, 256, 257, 1023, 1024, 1025, 4090, 4095, 4096, 4097, 4103, 8200], "thorough": [255, 256, 257, 1023, 1024, 1025, 4090, 4095, 4096, 4097, 4103, 8200, 16390, 65540]}
LONG_UNITS = ["x", "ab \xe9 ", "w $ \\beta + \\frac{a}{b} $ ", "& 100% ", "http://a.b/c_d "]
LONG_TAILS = ["", "$ \\beta$", " $a_1 + b$ end", " caf\xe9 & co", " http://a.b/c_d"]


def check_long_values(acc, tier):
    """Values of every length on the ladder (around the sizes a piecewise conversion would cut at), built from one repeated
    unit - plain letters, accented text, math holding blanks and macros, TeX specials, URLs - and a tail that puts a math
    span / an accent / a URL right at and after the boundary: decode(encode(text)) == text, as field and as @string."""
    for n in LONG_LENGTHS[tier]:
        for unit in LONG_UNITS:
            for tail in LONG_TAILS:
                room = n - len(tail)
                text = unit * (room // len(unit)) + "x" * (room % len(unit)) + tail  # (whole units only: exactly n characters)
                toks = (text,)
                if not in_domain(toks, text):
                    acc.count("long_values_outside_domain")
                    continue
                acc.count("long_values")
                check_text(toks, acc, opts=[OPTIONS[0], OPTIONS[3]], fresh=True, case={"long_value": [n, LONG_UNITS.index(unit), LONG_TAILS.index(tail)], "tokens": None})


def check_contain_types(acc):
    """A conversion failure is contained whatever exception the converter fails with; also the shipped converters on
    deeply nested values (the third-party parser recurses)."""
    for enc in (True, False):
        for ip in (True, False):
            for b in boom_variants():
                m = LatexEncodingMiddleware(encoder=b, allow_inplace_modification=ip) if enc else LatexDecodingMiddleware(decoder=b, allow_inplace_modification=ip)
                lib = Library([Entry("a", "k", [Field("t", "x BOOM"), Field("u", "fine")], 0, "@a{k}"), String("s", "BOOM"), Entry("b", "j", [Field("v", "fine")])])
                case = {"contain_exception_type": b.exc.__name__, "encoder": enc, "inplace": ip}
                acc.trace()
                acc.case(nontrivial_key=("contain-type", b.exc.__name__, enc, ip))
                try:
                    out = m.transform(lib)
                except BaseException as ex:
                    acc.violation({"oracle": "conversion_failure_contained", "exception": type(ex).__name__}, {"case": case, "observed": repr(ex)[:200], "expected": "a middleware-error block, no exception"})
                    continue
                b0, b2 = out.blocks[0], out.blocks[2]
                ok = isinstance(b0, MiddlewareErrorBlock) and isinstance(b0.ignore_error_block, Entry) and b0.ignore_error_block.fields[0].value == "x BOOM" and type(b2) is Entry and b2.fields[0].value == "fine!"
                acc.step(("contain-type", enc), b.exc.__name__, "ok" if ok else "bad")
                if not ok:
                    acc.violation({"oracle": "error_block_holds_original_entry", "where": "exception type " + b.exc.__name__}, {"case": case, "observed": [type(x).__name__ for x in out.blocks], "expected": "error block for the failing entry, the other entry converted"})
    for enc in (True, False):
        for ip in (True, False):
            for label, make in ARG_EXCS:
                for bad_value in ("x BOOM", "BOOM 100% {0} %s %(a)s \\1"):
                    conv_ = ArgsBoom(make)
                    m = LatexEncodingMiddleware(encoder=conv_, allow_inplace_modification=ip) if enc else LatexDecodingMiddleware(decoder=conv_, allow_inplace_modification=ip)
                    lib = Library([Entry("a", "k%s{0}", [Field("t%d", bad_value), Field("u", "fine")], 0, "@a{k}"), String("s%s", bad_value), Entry("b", "j", [Field("v", "fine 50%")])])
                    case = {"contain_exception_args": label, "value": bad_value, "encoder": enc, "inplace": ip}
                    acc.trace()
                    acc.case(nontrivial_key=("contain-args", label, bad_value, enc, ip))
                    try:
                        out = m.transform(lib)
                    except BaseException as ex:
                        acc.violation({"oracle": "conversion_failure_contained", "exception": type(ex).__name__}, {"case": case, "observed": repr(ex)[:200], "expected": "a middleware-error block, no exception"})
                        continue
                    b0, b1, b2 = out.blocks
                    ok = isinstance(b0, MiddlewareErrorBlock) and isinstance(b0.ignore_error_block, Entry) and b0.ignore_error_block.fields[0].value == bad_value and type(b2) is Entry and b2.fields[0].value == "fine 50%!"
                    ok = ok and isinstance(b1.ignore_error_block if isinstance(b1, MiddlewareErrorBlock) else None, String)
                    if not ok:
                        acc.violation({"oracle": "error_block_holds_original_entry", "where": "exception arguments / format characters in the value"}, {"case": case, "observed": [type(x).__name__ for x in out.blocks], "expected": "error blocks for the failing entry and string, the other entry converted"})
    # two entries in flight on one instance: the failure of one is not the failure of the other
    for enc in (True, False):
        for outer_fails, inner_fails in ((False, True), (True, False), (False, False), (True, True)):
            for nest_at in (0, 1, 2):
                conv_ = Reentrant()
                m = LatexEncodingMiddleware(encoder=conv_, allow_inplace_modification=True) if enc else LatexDecodingMiddleware(decoder=conv_, allow_inplace_modification=True)
                conv_.mw = m
                ovals = ["o1", "o2", "o3"]
                ovals[nest_at] = "NEST here"
                if outer_fails:
                    ovals[(nest_at + 1) % 3] = "BOOM outer"
                outer = Entry("a", "outer", [Field("f%d" % i, v) for i, v in enumerate(ovals)], 0, "@a{outer}")
                conv_.inner = Entry("b", "inner", [Field("g", "BOOM inner" if inner_fails else "fine")], 1, "@b{inner}")
                case = {"reentrant": {"outer_fails": outer_fails, "inner_fails": inner_fails, "nested_at_field": nest_at}, "encoder": enc}
                acc.trace(2)
                acc.case(nontrivial_key=("reentrant", enc, outer_fails, inner_fails, nest_at))
                try:
                    ro = m.transform_entry(outer, None)
                    ri = conv_.inner_result
                except BaseException as ex:
                    acc.violation({"oracle": "conversion_failure_contained", "exception": type(ex).__name__}, {"case": case, "observed": repr(ex)[:200], "expected": "blocks, no exception"})
                    continue
                ok = isinstance(ro, MiddlewareErrorBlock) == outer_fails and isinstance(ri, MiddlewareErrorBlock) == inner_fails
                if not ok:
                    acc.violation(
                        {"oracle": "failure_of_one_block_does_not_touch_others", "where": "two entries in flight on one instance"},
                        {"case": case, "observed": [type(ro).__name__, type(ri).__name__], "expected": ["MiddlewareErrorBlock" if outer_fails else "Entry", "MiddlewareErrorBlock" if inner_fails else "Entry"]},
                    )
    for depth in (10, 100, 400, 1000, 3000):
        for ip in (True, False):
            for which in ("enc", "dec"):
                v = "{" * depth + "x \\'e" + "}" * depth
                lib = Library([Entry("a", "deep", [Field("t", v)], 0, "@a{deep}"), Entry("b", "j", [Field("v", "fine")])])
                m = LatexEncodingMiddleware(allow_inplace_modification=ip) if which == "enc" else LatexDecodingMiddleware(allow_inplace_modification=ip)
                case = {"deep_nesting": depth, "middleware": which, "inplace": ip}
                acc.trace()
                acc.case(nontrivial_key=("deep", depth, which, ip))
                try:
                    out = m.transform(lib)
                except BaseException as ex:
                    acc.violation({"oracle": "conversion_failure_contained", "exception": type(ex).__name__}, {"case": case, "observed": repr(ex)[:200], "expected": "a converted entry or a middleware-error block, no exception"}, size=depth)
                    continue
                b0 = out.blocks[0]
                inner = b0.ignore_error_block if isinstance(b0, MiddlewareErrorBlock) else b0
                if not (isinstance(inner, Entry) and isinstance(inner.fields[0].value, str) and len(out.blocks) == 2 and (not isinstance(b0, MiddlewareErrorBlock) or inner.fields[0].value == v)):
                    acc.violation({"oracle": "error_block_holds_original_entry", "where": "deeply nested value"}, {"case": case, "observed": repr(b0)[:200], "expected": "entry converted, or error block holding the original value"}, size=depth)


def check_shared(acc):
    """NameParts values whose part lists are shared objects (a copied NameParts, the same list used for two parts):
    every string is converted exactly once."""
    import copy as _copy

    for ip in (True, False):
        # (two fields holding the very same NameParts OBJECT are converted field by field, i.e. twice; what should happen to
        #  aliased values inside the input is not specified by the property and not judged)
        for how in ("copy.copy", "same list twice"):
            shared = ["Jos\xe9", "M\xfcller"]
            np1 = NameParts(first=shared, last=["X"])
            if how == "copy.copy":
                np2 = _copy.copy(np1)
                fields = [Field("author", np1), Field("editor", np2)]
            elif how == "same list twice":
                np1 = NameParts(first=shared, last=shared)
                fields = [Field("author", np1)]
            else:
                fields = [Field("author", np1), Field("editor", np1)]
            lib = Library([Entry("a", "k", fields)])
            case = {"shared_lists": how, "inplace": ip}
            acc.trace(2)
            acc.case(nontrivial_key=("shared", how, ip))
            try:
                enc = LatexEncodingMiddleware(allow_inplace_modification=ip).transform(lib)
                vals = []
                for f in enc.blocks[0].fields:
                    vals += list(f.value.first) + list(f.value.last)
                ref = LatexEncodingMiddleware().transform(Library([Entry("a", "r", [Field("t", "Jos\xe9"), Field("u", "M\xfcller"), Field("x", "X")])])).blocks[0]
                exp = {"Jos\xe9": ref.fields[0].value, "M\xfcller": ref.fields[1].value, "X": "X"}
            except Exception as ex:
                acc.violation({"oracle": "no_exception", "exception": type(ex).__name__}, {"case": case, "observed": repr(ex), "expected": "no exception"})
                continue
            if not set(vals) <= set(exp.values()):
                acc.violation(
                    {"oracle": "name_part_strings_converted_once", "how": how},
                    {"case": case, "observed": vals, "expected": sorted(exp.values())},
                )


def check_contain(acc):
    check_contain_types(acc)
    check_shared(acc)
    for enc in (True, False):
        for ip in (True, False):
            # an entry with ONE field whose value has several name parts, the failing one last
            for failing in (["BOOM"], ["ok", "BOOM"], ["ok", "ok2", "BOOM"]):
                npv = NameParts(first=["Jan"], von=["van"], last=list(failing))
                e1 = Entry("a", "solo", [Field("author", npv)], 0, "@a{solo}")
                m1 = LatexEncodingMiddleware(encoder=Boom(), allow_inplace_modification=ip) if enc else LatexDecodingMiddleware(decoder=Boom(), allow_inplace_modification=ip)
                acc.trace()
                acc.case(nontrivial_key=("contain-solo", enc, ip, len(failing)))
                try:
                    b = m1.transform(Library([e1])).blocks[0]
                except Exception as ex:
                    acc.violation({"oracle": "conversion_failure_contained", "exception": type(ex).__name__}, {"case": {"contain": "solo name parts", "encoder": enc, "inplace": ip}, "observed": repr(ex), "expected": "a middleware-error block"})
                    continue
                inner = b.ignore_error_block if isinstance(b, MiddlewareErrorBlock) else None
                if not (isinstance(inner, Entry) and isinstance(inner.fields[0].value, NameParts) and inner.fields[0].value.last[-1] == "BOOM" and len(inner.fields[0].value.last) == len(failing)):
                    acc.violation(
                        {"oracle": "error_block_holds_original_entry", "where": "name part beyond the field count"},
                        {"case": {"contain": "solo name parts", "encoder": enc, "inplace": ip, "last": failing}, "observed": repr(b)[:200], "expected": "MiddlewareErrorBlock holding the entry with all name parts"},
                    )
            # a key held twice by a programmatically built entry: the failure of one occurrence is a failure of the entry,
            # whichever occurrence it is and whatever the other one does
            for bad_at in (0, 1, 2):
                vals = ["fine a", "fine b", "fine c"]
                vals[bad_at] = "BOOM here"
                e2 = Entry("a", "twice", [Field("note", vals[0]), Field("other", vals[1]), Field("note", vals[2])], 0, "@a{twice}")
                m2 = LatexEncodingMiddleware(encoder=Boom(), allow_inplace_modification=ip) if enc else LatexDecodingMiddleware(decoder=Boom(), allow_inplace_modification=ip)
                acc.trace()
                acc.case(nontrivial_key=("contain-twice", enc, ip, bad_at))
                try:
                    b = m2.transform(Library([e2])).blocks[0]
                except Exception as ex:
                    acc.violation({"oracle": "conversion_failure_contained", "exception": type(ex).__name__}, {"case": {"contain": "key held twice", "encoder": enc, "inplace": ip}, "observed": repr(ex), "expected": "a middleware-error block"})
                    continue
                inner = b.ignore_error_block if isinstance(b, MiddlewareErrorBlock) else None
                if not (isinstance(inner, Entry) and [f.key for f in inner.fields] == ["note", "other", "note"] and inner.fields[bad_at].value == "BOOM here"):
                    acc.violation(
                        {"oracle": "error_block_holds_original_entry", "where": "a key held twice"},
                        {"case": {"contain": "key held twice", "encoder": enc, "inplace": ip, "failing_occurrence": bad_at}, "observed": repr(b)[:200], "expected": "MiddlewareErrorBlock holding the entry with all three fields"},
                    )
            for where in ("first_field", "last_field", "name_part", "string", "none"):
                np = NameParts(first=["A", "BOOM" if where == "name_part" else "B"], last=["C"])
                fields = [
                    Field("a", "BOOM x" if where == "first_field" else "va", 1),
                    Field("n", 7, 2),
                    Field("editor", np, 3),
                    Field("z", "y BOOM" if where == "last_field" else "vz", 4),
                ]
                e = Entry("article", "k", fields, 0, "@article{k, raw}")
                s = String("s", "BOOM" if where == "string" else "sv", 9, "@string{s}")
                lib = Library([e, s, Preamble("BOOM")])
                m = LatexEncodingMiddleware(encoder=Boom(), allow_inplace_modification=ip) if enc else LatexDecodingMiddleware(decoder=Boom(), allow_inplace_modification=ip)
                # history on the same instance: a library whose @string fails comes first, then good entries
                try:
                    pre = m.transform(Library([String("s0", "BOOM"), Entry("a", "g1", [Field("a", "ok")]), String("s1", "BOOM"), Entry("a", "g2", [Field("z", "ok")])]))
                    kinds = [type(b).__name__ for b in pre.blocks]
                    vals = [b.fields[0].value for b in pre.blocks if isinstance(b, Entry)]
                    if [k for k in kinds if k == "Entry"] != ["Entry", "Entry"] or vals != ["ok!", "ok!"]:
                        acc.violation(
                            {"oracle": "failure_of_one_block_does_not_touch_others", "where": "string then entry"},
                            {"case": {"contain": "string-then-entry", "encoder": enc, "inplace": ip}, "observed": kinds + vals, "expected": "both entries converted, not error blocks"},
                        )
                except Exception as ex:
                    acc.violation({"oracle": "conversion_failure_contained", "exception": type(ex).__name__}, {"case": {"contain": "string-then-entry", "encoder": enc, "inplace": ip}, "observed": repr(ex), "expected": "no exception"})
                case = {"contain": where, "encoder": enc, "inplace": ip}
                acc.trace()
                acc.case(nontrivial_key=("contain", where, enc, ip))
                try:
                    out = m.transform(lib)
                except Exception as ex:
                    acc.violation({"oracle": "conversion_failure_contained", "exception": type(ex).__name__}, {"case": case, "observed": repr(ex), "expected": "a middleware-error block, no exception"})
                    continue
                b0, b1 = out.blocks[0], out.blocks[1]
                acc.step(("contain", where, enc), "transform", (type(b0).__name__, type(b1).__name__))
                if where in ("first_field", "last_field", "name_part"):
                    inner = b0.ignore_error_block if isinstance(b0, MiddlewareErrorBlock) else None
                    ok = isinstance(inner, Entry) and (inner.entry_type, inner.key, inner.raw, inner.start_line) == ("article", "k", "@article{k, raw}", 0) and [f.key for f in inner.fields] == ["a", "n", "editor", "z"]
                    if ok:
                        va, vn, ve, vz = [f.value for f in inner.fields]
                        ok = vn == 7 and isinstance(ve, NameParts)
                        ok = ok and (va == "BOOM x" if where == "first_field" else va in ("va", "va!"))
                        ok = ok and (vz == "y BOOM" if where == "last_field" else vz in ("vz", "vz!"))
                        if ok and where == "name_part":
                            ok = ve.first in (["A", "BOOM"], ["A!", "BOOM"]) and ve.last in (["C"], ["C!"])
                        elif ok:
                            ok = ve.first in (["A", "B"], ["A!", "B!"]) and ve.last in (["C"], ["C!"])
                    if not ok:
                        acc.violation(
                            {"oracle": "error_block_holds_original_entry", "where": where},
                            {"case": case, "observed": repr(b0)[:80] + " inner=" + repr(inner)[:300], "expected": "MiddlewareErrorBlock whose entry keeps type, key, raw, field keys; the failing value untouched"},
                        )
                else:
                    if type(b0) is not Entry or [f.value for f in b0.fields if f.key in ("a", "z")] != ["va!", "vz!"]:
                        acc.violation({"oracle": "unaffected_entry_converted", "where": where}, {"case": case, "observed": repr(b0)[:200], "expected": "converted Entry"})
                sb = b1.ignore_error_block if isinstance(b1, MiddlewareErrorBlock) else b1
                if not isinstance(sb, String) or not isinstance(sb.value, str) or (where == "string" and sb.value != "BOOM") or (where != "string" and (type(b1) is not String or sb.value != "sv!")):
                    acc.violation({"oracle": "string_failure_contained", "where": where}, {"case": case, "observed": repr(b1)[:200], "expected": "a String (or an error block holding it) with a str value"})
                if canon(out.blocks[2]) != canon(Preamble("BOOM")):
                    acc.violation({"oracle": "only_text_values_change", "block": "Preamble", "what": "untouched_parts"}, {"case": case, "observed": repr(out.blocks[2]), "expected": "untouched"})


ORDER_PROBES_ENC = ["$x_1$ caf\xe9 & 100% {B} ~", "see http://a.b/c_d and $a+b$", "\xfc\xdf \\ <>"]
ORDER_PROBES_DEC = ["$x_1$ caf\\'e \\& 100\\% {B}races", "\\url{http://a.b/c_d} and $a+b$", "\\\"u {\\ss} \\textbackslash"]
ORDER_CONFIGS = [("enc", km, eu) for km in (None, True, False) for eu in (None, True, False)] + [("dec", kb, km) for kb in (None, True, False) for km in (None, True, False)]

def order_make(cfg):
    kind, a, b = cfg
    if kind == "enc":
        return LatexEncodingMiddleware(keep_math=a, enclose_urls=b, allow_inplace_modification=False)
    return LatexDecodingMiddleware(keep_braced_groups=a, keep_math_mode=b, allow_inplace_modification=False)


def order_behaviour(cfg, m=None):
    """What the configuration does to the probe texts (field value and @string value)."""
    cfg = tuple(cfg)
    m = m if m is not None else order_make(cfg)
    out = []
    for t in ORDER_PROBES_ENC if cfg[0] == "enc" else ORDER_PROBES_DEC:
        lib = m.transform(Library([Entry("a", "k", [Field("t", t)]), String("s", t)]))
        out.append([type(b).__name__ + ":" + repr(getattr(b, "value", None) if isinstance(b, String) else (b.fields[0].value if isinstance(b, Entry) and not isinstance(b, ParsingFailedBlock) else None)) for b in lib.blocks])
    return out


def check_construction_order(acc):
    """See mc/order.py: every ordered pair of encoder configurations and of decoder configurations."""
    import sys

    from .. import order

    order.run(sys.modules[__name__], acc)


def run_shard(shard, tier, acc):
    _ENC.clear()  # long-lived instances within a shard only
    _DEC.clear()
    if shard[0] == "rt":
        for toks in seq_iter(SIGMA, shard[1]):
            check_text(toks, acc)
    elif shard[0] == "core":
        for toks in seq_iter(SIGMA_CORE, shard[1]):
            if url_cause("".join(toks), (True, True)):
                acc.count("core_texts_with_the_known_url_cause_left_to_the_short_family")  # (F18: judged on texts of <= 3 / 4 tokens)
                continue
            acc.count("core_texts")
            check_text(toks, acc)
    elif shard[0] == "state":
        check_state(acc)
    elif shard[0] == "big":
        check_big(shard[1], acc)
    elif shard[0] == "scope":
        check_scope(acc)
    elif shard[0] == "construction":
        check_construction_order(acc)
    elif shard[0] == "long":
        check_long_values(acc, tier)
    else:
        check_contain(acc)


def replay(case, acc):
    if "construction_order" in case:
        return check_construction_order(acc)
    if "long_value" in case:
        return check_long_values(acc, "quick" if case["long_value"][0] <= 8200 else "thorough")
    if "tokens" in case:
        check_text(tuple(case["tokens"]), acc, opts=[tuple(case["options"])], fresh=True, case=case)
        if not acc.viol:
            # the failure may depend on what the process converted before (state kept between calls): replay the case
            # after the short texts, as in the exploration
            for opt in OPTIONS:
                e = LatexEncodingMiddleware(keep_math=opt[0], enclose_urls=opt[1])
                for n in (1, 2):
                    for toks in itertools.product(SIGMA, repeat=n):
                        if in_domain(toks, "".join(toks)):
                            conv(e, "".join(toks))
            check_text(tuple(case["tokens"]), acc, opts=[tuple(case["options"])], fresh=True, case=case)
    elif "state_text" in case:
        check_state(acc)
    elif "big" in case:
        check_big(case["big"], acc)
    elif "scope" in case:
        check_scope(acc)
    else:
        check_contain(acc)


def unit_test(case):
    if "tokens" not in case:
        return "# see witness\n"
    return (
        "from bibtexparser.library import Library\nfrom bibtexparser.model import Entry, Field\n"
        "from bibtexparser.middlewares import LatexEncodingMiddleware as E, LatexDecodingMiddleware as D\n"
        f"t = {''.join(case['tokens'])!r}\n"
        f"enc = E(keep_math={case['options'][0]}, enclose_urls={case['options'][1]}).transform(Library([Entry('a','k',[Field('t', t)])]))\n"
        "back = D().transform(enc).entries[0].fields[0].value\n"
        "assert back == t, (enc.entries[0].fields[0].value, back)\n"
    )


def ENV_SHARDS(tier):
    """The broad, cheap families: run again in a fresh interpreter per environment (engine.run_environments)."""
    return [s for s in shards('quick') if s[0] in ("scope", "contain") or (s[0] == "rt" and s[1][0] <= 2)]

