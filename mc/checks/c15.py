"""C15 — month middlewares share one 12-month table, compose, and leave non-months alone (DESIGN 4/C15)."""
import itertools
import sys
import unicodedata

from bibtexparser.library import Library
from bibtexparser.middlewares import MonthAbbreviationMiddleware, MonthIntMiddleware, MonthLongStringMiddleware
from bibtexparser.model import Entry, Field, String  # noqa

from ..canon import canon

ID = "C15"
RULE = (
    "exhaustive as the property states: 12 months x {int, decimal strings with 0-2 leading zeros, all 8 case variants of the abbreviation, all "
    "2^n case variants of the full name} x 3 middlewares x all 9 ordered pairs, all 27 chains of three on the same library object, apply-edit-apply, in-place and copy mode, fresh and long-lived instances; plus "
    "non-month values (out-of-range numbers, enclosed text, near-miss words, empty, None, list, float, no month field) which must come back "
    "identical, and for the no-exception clause a Unicode alphabet (non-ASCII digits, one code point per general category, 5000-digit string, "
    "NUL, surrogates). Non-trivial = month spelling (distinct by value and middleware pair)."
)
ASSUMPTIONS = ["bool values are not considered integers of the property (Python's bool is an int subclass)"]
STATIC_SAMPLES = ["JaNuArY", "007", 13]

ABBR = ["jan", "feb", "mar", "apr", "may", "jun", "jul", "aug", "sep", "oct", "nov", "dec"]
FULL = ["January", "February", "March", "April", "May", "June", "July", "August", "September", "October", "November", "December"]
MWS = [("int", MonthIntMiddleware), ("abbr", MonthAbbreviationMiddleware), ("long", MonthLongStringMiddleware)]


def case_variants(word):
    for bits in itertools.product((0, 1), repeat=len(word)):
        yield "".join(c.upper() if b else c.lower() for c, b in zip(word, bits))


def spellings(m):
    yield m
    for z in ("", "0", "00"):
        yield z + str(m)
    yield from case_variants(ABBR[m - 1])
    if len(FULL[m - 1]) > 3:
        yield from case_variants(FULL[m - 1])


import decimal
import fractions

NON_MONTHS = [3.0, 12.0, fractions.Fraction(3), decimal.Decimal(3), complex(3, 0), (), ("jun", "jul"), (6, 7), [6], {"jan": 1}, frozenset({"jan"}), b"jan", b"3", float("nan"), float("inf"),
              0, 13, -1, 100, "0", "13", "00", "000", "013", "1 ", " 1", "1.0", "+1", "{jan}", '"1"', "{1}", "janu", "sept", "", " jan", "jan ", "ja", "januaryy", "marc", None, ["jan"], 1.5, ("jan",), "jan.", "Jan-Feb", "\u017fep", "\u017feptember", "augu\u017ft", "augu\ufb06", "\u017fept", "mar\u0307", "Ma\u0131", "\u0130un", "JUN\u0307"]


def unicode_alphabet():
    out = ["²", "٣", "١٢", "１", "Ⅻ", "9" * 5000, "1" * 4301, "İ", "ǅ", "\x00", "\ud800", "jan\x00", "ŉ", "ß", "ſ", "K", "İan", "maı", "ﬁ"]
    seen = set()
    for cp in range(sys.maxunicode + 1):
        ch = chr(cp)
        cat = unicodedata.category(ch)
        key = (cat, ch.isdigit(), ch.isdecimal())
        if key not in seen:
            seen.add(key)
            out.append(ch)
            out.append(ch * 3)
            out.append("1" + ch)
    return out


def bounds(tier):
    return {"months": 12, "spellings_total": sum(len(list(spellings(m))) for m in range(1, 13)), "non_months": len(NON_MONTHS), "unicode_values": len(unicode_alphabet()), "middleware_pairs": 9}


def shards(tier):
    return [("month", m) for m in range(1, 13)] + [("non", 0), ("construction", 0), ("unicode", 0), ("leak", 0), ("nofield", 0), ("after", 0)]


def _sub_non_months():
    from ..subtypes import I, Num, S, T

    from ..subtypes import WithIndex

    return [S("foo"), S("{jan}"), S("13"), S(""), S("janu"), I(0), I(13), I(-1), Num.ZERO, Num.THIRTEEN, T(("jan",)), WithIndex(5), WithIndex(0), WithIndex(3, fail=True)]


NON_MONTHS = NON_MONTHS + list(range(-13, 0)) + [14, 24, 112] + ["+3", "-3", "1_2", "0 7", "1\n", "\t2", "\uff13", "0x3", "3e0", "1.", "0b11", "١"]  # what int() / float() would still accept, and wrap-around indices
NON_MONTHS = NON_MONTHS + _sub_non_months() + [10**4300, 10**5000, -(10**5000)]  # ints Python refuses to turn into text (F31)


def expected(name, m):
    return {"int": m, "abbr": ABBR[m - 1], "long": FULL[m - 1]}[name]


def mk_lib(v):
    e = Entry("article", "k", [Field("title", "May"), Field("month", v), Field("year", "12")], start_line=1, raw="raw")
    other = Entry("book", "k2", [Field("Month", "1"), Field("note", "jan")])
    return Library([e, other, String("jan", "1")])


def apply(M, v, inplace, inst=None):
    """-> (result value, whole library, exception or None)"""
    lib = mk_lib(v)
    before_other = [canon(b) for b in lib.blocks[1:]]
    mw = inst if inst is not None else M(allow_inplace_modification=inplace)
    out = mw.transform(lib)
    e = out.blocks[0]
    res = e.fields_dict["month"].value
    sideok = (
        [canon(b) for b in out.blocks[1:]] == before_other
        and [f.key for f in e.fields] == ["title", "month", "year"]
        and e.fields[0].value == "May"
        and e.fields[2].value == "12"
        and (e.entry_type, e.key, e.start_line, e.raw) == ("article", "k", 1, "raw")
        and len(out.blocks) == 3
    )
    return res, sideok


def run(M, v, inplace, acc, case, inst=None):
    acc.trace()
    try:
        return apply(M, v, inplace, inst)
    except RecursionError:
        raise
    except Exception as ex:
        acc.violation(
            {"oracle": "never_raises", "exception": type(ex).__name__, "middleware": M.__name__},
            {"case": case, "observed": repr(ex)[:200], "expected": "no exception"},
        )
        return None


def check_month(m, acc):
    for v in spellings(m):
        for inplace in (True, False):
            firsts = {}
            for name, M in MWS:
                case = {"value": v if not isinstance(v, str) or len(v) < 50 else v[:50], "middleware": name, "inplace": inplace}
                acc.case(sample=lambda: case, nontrivial_key=(repr(v), name, inplace))
                r = run(M, v, inplace, acc, case)
                if r is None:
                    continue
                res, sideok = r
                exp = expected(name, m)
                acc.step(("v", repr(v)), name, canon(res))
                acc.outcome(canon(res))
                if res != exp or type(res) is not type(exp):
                    acc.violation(
                        {"oracle": "month_table", "middleware": name, "spelling": "int" if isinstance(v, int) else ("digits" if v.isdigit() else ("abbr" if len(v) == 3 else "full"))},
                        {"case": case, "observed": repr(res), "expected": repr(exp)},
                    )
                    continue
                if not sideok:
                    acc.violation({"oracle": "other_fields_and_blocks_untouched", "middleware": name}, {"case": case, "observed": "changed", "expected": "unchanged"})
                firsts[name] = res
            # composition: M2(M1(v)) == M2(v)
            for (n1, M1), (n2, M2) in itertools.product(MWS, MWS):
                if n1 not in firsts or n2 not in firsts:
                    continue
                case = {"value": v, "first": n1, "second": n2, "inplace": inplace}
                acc.case(nontrivial_key=(repr(v), n1, n2, inplace))
                r = run(M2, firsts[n1], inplace, acc, case)
                if r is None:
                    continue
                res, _ = r
                acc.step(("v", repr(firsts[n1])), n2, canon(res))
                if res != firsts[n2] or type(res) is not type(firsts[n2]):
                    acc.violation(
                        {"oracle": "composition", "first": n1, "second": n2},
                        {"case": case, "observed": repr(res), "expected": repr(firsts[n2])},
                    )


def check_subtypes(m, acc):
    """Month values that are instances of a subclass of str / int (a caller's own string type, an IntEnum): the same
    table applies; the result equals the table entry and is a str / an int (a value already in the target spelling
    may be handed back as it is)."""
    from ..subtypes import I, Num, S

    vals = [S(str(m)), S("0" + str(m)), S(ABBR[m - 1]), S(ABBR[m - 1].upper()), S(FULL[m - 1]), S(FULL[m - 1].lower()), I(m), Num(m)]
    import enum

    # members of a str-Enum: strings whose str() / format() are not their text
    vals += list(enum.Enum("MonthWord", {"A": ABBR[m - 1].capitalize(), "F": FULL[m - 1].upper(), "D": "0" + str(m)}, type=str))
    for v in vals:
        for inplace in (True, False):
            for name, M in MWS:
                case = {"value": repr(v), "value_type": type(v).__name__, "middleware": name, "inplace": inplace, "subtype": True}
                acc.case(nontrivial_key=("sub", repr(v), type(v).__name__, name, inplace))
                r = run(M, v, inplace, acc, case)
                if r is None:
                    continue
                res, sideok = r
                exp = expected(name, m)
                acc.step(("v", repr(v), type(v).__name__), name, canon(res))
                if not (isinstance(res, type(exp)) and res == exp and not isinstance(res, bool)):
                    acc.violation(
                        {"oracle": "month_table", "middleware": name, "spelling": "subclass of " + type(v).__mro__[-2].__name__ if not isinstance(v, Num) else "IntEnum"},
                        {"case": case, "observed": repr(res), "expected": repr(exp)},
                    )
                elif not sideok:
                    acc.violation({"oracle": "other_fields_and_blocks_untouched", "middleware": name}, {"case": case, "observed": "changed", "expected": "unchanged"})


ZEROS = [3, 10, 100, 4297, 4298, 4299, 4300, 4301, 5000, 20000]


def check_zeros(m, acc):
    """Digit strings with many leading zeros (around Python's 4300-digit limit of int() and beyond) denote the month
    all the same; with an out-of-range number after the zeros they come back unchanged."""
    for n in ZEROS:
        for tail, is_month in ((str(m), True), (str(m + 12), False), ("0", False)):
            v = "0" * n + tail
            for inplace in (True, False):
                for name, M in MWS:
                    case = {"leading_zeros": n, "digits": tail, "middleware": name, "inplace": inplace}
                    acc.case(nontrivial_key=("zeros", n, tail, name, inplace))
                    r = run(M, v, inplace, acc, case)
                    if r is None:
                        continue
                    res, sideok = r
                    exp = expected(name, m) if is_month else v
                    acc.step(("zeros", n, tail), name, canon(res) if len(str(res)) < 50 else "unchanged")
                    if res != exp or type(res) is not type(exp):
                        acc.violation(
                            {"oracle": "month_table" if is_month else "non_month_unchanged", "middleware": name, "spelling": "digits after many zeros"},
                            {"case": case, "observed": repr(res)[:60], "expected": repr(exp)[:60]},
                        )


def check_after_others(acc):
    """Whatever other shipped middlewares did to the entry before (every ordered pair out of a pool of seven: sorted
    its fields two ways, normalised keys, removed / added enclosings, resolved strings) and wherever the month field
    stands among fields with keys before and after 'month', the month middleware converts it."""
    import bibtexparser.middlewares as mw

    pool = [
        ("SortAlpha", lambda: mw.SortFieldsAlphabeticallyMiddleware()),
        ("SortCustom(title)", lambda: mw.SortFieldsCustomMiddleware(order=("title",))),
        ("SortCustom(year,month)", lambda: mw.SortFieldsCustomMiddleware(order=("year", "month"))),
        ("NormalizeFieldKeys", lambda: mw.NormalizeFieldKeys()),
        ("RemoveEnclosing", lambda: mw.RemoveEnclosingMiddleware()),
        ("Resolve", lambda: mw.ResolveStringReferencesMiddleware()),
        ("SortBlocks", lambda: mw.SortBlocksByTypeAndKeyMiddleware()),
    ]
    orders = [("title", "month", "year", "abstract"), ("month", "abstract", "title"), ("abstract", "year", "title", "month"), ("zz", "month", "aa")]
    for (n1, f1), (n2, f2) in itertools.product(pool, pool):
        for keys in orders:
            for m, v in ((1, "jan"), (3, 3), (12, "December"), (5, "05")):
                for name, M in MWS:
                    case = {"after": [n1, n2], "field_order": list(keys), "value": repr(v), "middleware": name}
                    acc.trace(3)
                    acc.case(nontrivial_key=("after", n1, n2, keys, repr(v), name))
                    e = Entry("article", "k", [Field(k, v if k == "month" else "{text}") for k in keys])
                    lib = Library([e, String("jan", "1")])
                    try:
                        lib = f2().transform(f1().transform(lib))
                    except Exception:
                        acc.count("earlier_stage_rejects_the_value")  # (e.g. RemoveEnclosing on an int: not the month middleware's call)
                        continue
                    try:
                        out = M().transform(lib)
                        res = out.entries[0].fields_dict["month"].value
                    except Exception as ex:
                        acc.violation({"oracle": "never_raises", "exception": type(ex).__name__, "middleware": name}, {"case": case, "observed": repr(ex)[:200], "expected": "no exception"})
                        continue
                    exp = expected(name, m)
                    acc.step(("after", n1, n2, keys, repr(v)), name, canon(res))
                    if res != exp or type(res) is not type(exp):
                        acc.violation({"oracle": "month_table", "middleware": name, "spelling": "after other middlewares"}, {"case": case, "observed": repr(res), "expected": repr(exp)})


def check_chains(m, acc):
    """Chains of three middlewares applied to the SAME library object(s), as a stack would: the last one decides,
    whatever ran before (metadata left on the entry by earlier stages must not matter)."""
    reps = [m, str(m), "0" + str(m), ABBR[m - 1], ABBR[m - 1].upper(), FULL[m - 1], FULL[m - 1].upper(), FULL[m - 1].lower()]
    for v in reps:
        for inplace in (True, False):
            for chain in itertools.product(MWS, repeat=3):
                names = [n for n, _ in chain]
                case = {"value": v, "chain": names, "inplace": inplace}
                acc.trace(3)
                acc.case(nontrivial_key=("chain", repr(v), tuple(names), inplace))
                lib = mk_lib(v)
                try:
                    for _, M in chain:
                        lib = M(allow_inplace_modification=inplace).transform(lib)
                    res = lib.blocks[0].fields_dict["month"].value
                except Exception as ex:
                    acc.violation({"oracle": "never_raises", "exception": type(ex).__name__, "middleware": "chain"}, {"case": case, "observed": repr(ex)[:200], "expected": "no exception"})
                    continue
                exp = expected(names[-1], m)
                acc.step(("v", repr(v)), ("chain", tuple(names)), canon(res))
                if res != exp or type(res) is not type(exp):
                    acc.violation(
                        {"oracle": "chain_last_one_decides", "last": names[-1]},
                        {"case": case, "observed": repr(res), "expected": repr(exp)},
                    )
            # the same instance applied, the month edited by the user, applied again
            for name, M in MWS:
                inst = M(allow_inplace_modification=inplace)
                lib = inst.transform(mk_lib(v))
                m2 = m % 12 + 1
                lib.blocks[0].fields_dict["month"].value = ABBR[m2 - 1].upper()
                acc.trace(2)
                acc.case(nontrivial_key=("edit", repr(v), name, inplace))
                try:
                    res = inst.transform(lib).blocks[0].fields_dict["month"].value
                except Exception as ex:
                    acc.violation({"oracle": "never_raises", "exception": type(ex).__name__, "middleware": name}, {"case": {"value": v, "edit_then": name}, "observed": repr(ex)[:200], "expected": "no exception"})
                    continue
                exp = expected(name, m2)
                if res != exp or type(res) is not type(exp):
                    acc.violation({"oracle": "apply_edit_apply", "middleware": name}, {"case": {"value": v, "edit_then": name, "inplace": inplace}, "observed": repr(res), "expected": repr(exp)})
                # the same with the INPUT library kept by the caller: transformed, its month edited, transformed again
                inst = M(allow_inplace_modification=inplace)
                src = mk_lib(v)
                acc.trace(2)
                acc.case(nontrivial_key=("edit-input", repr(v), name, inplace))
                try:
                    inst.transform(src)
                    src.blocks[0].fields_dict["month"].value = ABBR[m2 - 1].upper()
                    res = inst.transform(src).blocks[0].fields_dict["month"].value
                except Exception as ex:
                    acc.violation({"oracle": "never_raises", "exception": type(ex).__name__, "middleware": name}, {"case": {"value": v, "edit_input_then": name}, "observed": repr(ex)[:200], "expected": "no exception"})
                    continue
                if res != exp or type(res) is not type(exp):
                    acc.violation({"oracle": "apply_edit_apply", "middleware": name, "what": "the same input library again"}, {"case": {"value": v, "edit_input_then": name, "inplace": inplace}, "observed": repr(res), "expected": repr(exp)})


def _r(v):
    try:
        return repr(v)
    except ValueError:  # an int beyond Python's int-to-text limit
        return f"<int of {v.bit_length()} bits>"


def check_unchanged(values, acc, exception_only=False):
    for v in values:
        for inplace in (True, False):
            for name, M in MWS:
                shown = v if not isinstance(v, str) or len(v) < 40 else v[:20] + f"...({len(v)} chars)"
                case = {"value": _r(shown), "middleware": name, "inplace": inplace}
                acc.case(nontrivial_key=("non", _r(v)[:60], name, inplace))
                r = run(M, v, inplace, acc, case)
                if r is None or exception_only:
                    continue
                res, sideok = r
                acc.step(("v", _r(v)[:60]), name, _r(res)[:80])
                same = (res is v) if inplace else (type(res) is type(v) and (res == v or res != res))
                if not same:
                    acc.violation(
                        {"oracle": "non_month_unchanged", "middleware": name, "value_type": type(v).__name__},
                        {"case": case, "observed": _r(res)[:100], "expected": _r(v)[:100]},
                    )
                elif not sideok:
                    acc.violation({"oracle": "other_fields_and_blocks_untouched", "middleware": name}, {"case": case, "observed": "changed", "expected": "unchanged"})


def check_leak(acc):
    """A long-lived instance must behave like a fresh one for every value (no state left over between entries)."""
    seq = ["{Jan}", "{JAN}", "Spring", "SPRING", "13", 13, 0, "0", "jan", "JAN", "{jan}", 1, "1", "01", "January", "JANUARY", "january", 12, "12", "dec", "{Dec}", "{DEC}"]
    for order in (seq, seq[::-1]):
        for inplace in (True, False):
            for name, M in MWS:
                inst = M(allow_inplace_modification=inplace)
                for n, v in enumerate(order):
                    case = {"leak_sequence": [repr(x) for x in order[: n + 1]], "middleware": name, "inplace": inplace}
                    acc.case(nontrivial_key=("leak", tuple(map(repr, order[: n + 1])), name, inplace))
                    a = run(M, v, inplace, acc, case, inst=inst)
                    b = run(M, v, inplace, acc, case)
                    if a is None or b is None:
                        continue
                    if canon(a[0]) != canon(b[0]):
                        acc.violation(
                            {"oracle": "reused_instance_equals_fresh", "middleware": name},
                            {"case": case, "observed": repr(a[0]), "expected": repr(b[0])},
                        )


def check_nofield(acc):
    for inplace in (True, False):
        for name, M in MWS:
            e = Entry("article", "k", [Field("title", "jan"), Field("Month", "1"), Field("MONTH", 2)])
            lib = Library([e, String("month", "1")])
            before = canon(lib)
            case = {"no_month_field": True, "middleware": name, "inplace": inplace}
            acc.case(nontrivial_key=("nofield", name, inplace))
            acc.trace()
            try:
                out = M(allow_inplace_modification=inplace).transform(lib)
            except Exception as ex:
                acc.violation({"oracle": "never_raises", "exception": type(ex).__name__, "middleware": name}, {"case": case, "observed": repr(ex), "expected": "no exception"})
                continue
            blocks_same = [canon(b) for b in out.blocks] == [canon(b) for b in mk_nofield().blocks]
            if not blocks_same:
                acc.violation({"oracle": "entry_without_month_untouched", "middleware": name}, {"case": case, "observed": repr(out.blocks[0]), "expected": "unchanged"})


def mk_nofield():
    e = Entry("article", "k", [Field("title", "jan"), Field("Month", "1"), Field("MONTH", 2)])
    return Library([e, String("month", "1")])


ORDER_CONFIGS = [(k, ip) for k in ("int", "abbr", "long") for ip in (True, False)]
ORDER_PROBES = [1, 12, 0, 13, "1", "01", "12", "13", "jan", "JAN", "Jan", "january", "January", "MAY", "may", "sept", "september", "{jan}", '"1"', "Spring", "spring", "", " 1", "1\n"]


def order_behaviour(cfg):
    k, ip = cfg
    m = {"int": MonthIntMiddleware, "abbr": MonthAbbreviationMiddleware, "long": MonthLongStringMiddleware}[k](allow_inplace_modification=ip)
    out = []
    for v in ORDER_PROBES:
        try:
            e = m.transform(Library([Entry("a", "k", [Field("month", v)])])).blocks[0]
            out.append(type(e.fields[0].value).__name__ + ":" + repr(e.fields[0].value))
        except Exception as ex:
            out.append("raised:" + type(ex).__name__)
    return out

def check_in_flight(acc):
    """Two passes in flight on one month-middleware instance (they declare allow_parallel_execution): see C20's family;
    here for the three month middlewares, whose results are the property's subject."""
    from .c20 import check_same_instance_in_flight

    check_same_instance_in_flight(acc, {"MonthIntMiddleware": MonthIntMiddleware, "MonthAbbreviationMiddleware": MonthAbbreviationMiddleware, "MonthLongStringMiddleware": MonthLongStringMiddleware})


def check_construction_order(acc):
    """mc/order.py: every ordered pair of configurations, against each configuration first in a fresh interpreter."""
    import sys

    from .. import order

    order.run(sys.modules[__name__], acc, group=lambda cfg: 0)


def run_shard(shard, tier, acc):
    if shard[0] == "month":
        check_month(shard[1], acc)
        check_subtypes(shard[1], acc)
        check_zeros(shard[1], acc)
        check_chains(shard[1], acc)
    elif shard[0] == "construction":
        check_construction_order(acc)
        check_in_flight(acc)
    elif shard[0] == "non":
        check_unchanged(NON_MONTHS, acc)
    elif shard[0] == "unicode":
        check_unchanged(unicode_alphabet(), acc, exception_only=True)
    elif shard[0] == "leak":
        check_leak(acc)
    elif shard[0] == "after":
        check_after_others(acc)
    else:
        check_nofield(acc)


def replay(case, acc):
    # the spaces are small: re-run the part the case belongs to
    if "same_instance_in_flight" in case:
        check_in_flight(acc)
    elif "construction_order" in case:
        check_construction_order(acc)
    elif "leak_sequence" in case:
        check_leak(acc)
    elif "no_month_field" in case:
        check_nofield(acc)
    elif "chain" in case or "edit_then" in case or "edit_input_then" in case:
        for m in range(1, 13):
            check_chains(m, acc)
    elif "leading_zeros" in case:
        for m in range(1, 13):
            check_zeros(m, acc)
    elif "after" in case:
        check_after_others(acc)
    else:
        for m in range(1, 13):
            check_month(m, acc)
            check_subtypes(m, acc)
            check_zeros(m, acc)
        check_unchanged(NON_MONTHS, acc)
        check_unchanged(unicode_alphabet(), acc, exception_only=True)


def unit_test(case):
    return "# month value / middleware(s) / mode: " + repr(case) + "\n"


def ENV_SHARDS(tier):
    """The broad, cheap families: run again in a fresh interpreter per environment (engine.run_environments)."""
    return [s for s in shards('quick') if s[0] != "construction"]

