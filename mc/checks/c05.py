"""C05 — parse -> write -> parse preserves content; written text is a fixpoint (DESIGN 4/C05)."""
import itertools

import bibtexparser
from bibtexparser.writer import BibtexFormat

from .. import bigdocs, dialect
from ..canon import canon, content
from ..engine import chunks
from . import c02

ID = "C05"
LEAN = True  # cases are distinct by construction; see engine.Acc
RULE = (
    "documents = generated entries (heads x keys x field lists over the 17-value catalogue incl. concatenations, numbers, nested braces, "
    "quote-in-brace-in-quote, multi-line values, zero fields) + every document of <=2/<=3 catalogue blocks (all block kinds, resolved and "
    "unresolved @string references, comments between blocks) x gap texts, each x every BibtexFormat of the product indent x value_column x "
    "trailing_comma x block_separator; trace d -parse-> L1 -write-> W1 -parse-> L2 -write-> W2 with the default stacks. "
    "Non-trivial = (document, format) pair whose document has an @-block (distinct)."
)
ASSUMPTIONS = [
    "indent and block_separator range over whitespace-only strings (anything else is new comment text and changes content by construction)",
    "documents are those of the dialect grammar on which the reference recogniser and the constructive generator agree",
]
STATIC_SAMPLES = ['@a{k, f = "x" # {y}}  with indent=\'\\t\', value_column=\'auto\', trailing_comma=True, block_separator=\'\'']


AUTO2 = "auto (an equal string built at run time)"  # marker in a format spec: mkformat() sets value_column to "".join(["au", "to"])


def formats(tier):
    if tier == "quick":
        ind, vc, sep = ["", "\t", "  \t"], [0, 12, "auto", AUTO2], ["", " ", "\n\n"]
    else:
        ind, vc, sep = ["", " ", "\t", "  \t"], [0, 1, 4, 12, 30, "auto", AUTO2], ["", " ", "\n", "\n\n", "\n\n\n"]
    return [(i, v, t, s) for i in ind for v in vc for t in (False, True) for s in sep]


def mkformat(spec):
    f = BibtexFormat()
    spec = tuple(spec)
    if spec[1] == AUTO2:
        spec = (spec[0], "".join(["au", "to"])) + spec[2:]  # as it arrives from a configuration file: equal to, but not, the literal
    f.indent, f.value_column, f.trailing_comma, f.block_separator = spec
    return f


def bounds(tier):
    return {"formats": len(formats(tier)), "format_product": "indent x value_column x trailing_comma x block_separator", "documents": "see counters"}


EXTRA_DOCS = [
    '@string{s0 = "x"}\n@a{k, f = s0, g = S0, h = s0 # s0, i = {s0}}',
    "@a{k, f = later}\n@string{later = {defined after use}}",
    '@string{a = "1"}\n@string{b = a}\n@x{k, f = b, year = 1990, month = jan}',
    "% leading comment\n\n@a{k1, f = {v}}\n% between\n@b{k2}\ntrailing words",
    "@preamble{ spaced }\n@comment{ spaced comment }\n@a{k, f = {  padded  }, g = \"  q  \"}",
    "@a{k, f = {l1\nl2},\n g = {a\n\n b}}",
    "@a{k, a = {1}}@b{j, b = {2}}@comment{c}@string{s = {v}}@preamble{p}",
    "@\u0130x{k, t = {dotted capital I in the entry type}}",
    "@a{k, \u0130x = {1}, stra\xdfe = {2}, \ufb01 = {3}}",
    "@a{k\\ , t = {key ends in a backslash}}\n@comment{text ends in a backslash\\ }\n",
    "@comment{a}@comment{a}",  # structurally equal blocks (same text, same line)
    "@preamble{p}@preamble{p}@comment{a}@preamble{p}",
    "% same\n@a{k1, t = {x}}\n% same\n@a{k2, t = {x}}\n% same",
    # free text that reads like the writer's own warning line (a file written earlier, its failed block since removed)
    "% WARNING Parsing failed for the following 3 lines.\n@a{k, t = {x}}\n% WARNING Parsing failed for the following 1 lines.\n\n@b{j}\n% WARNING Parsing failed for the following 12 lines.",
    # values ending in a backslash followed by a line break before the closing delimiter
    '@a{k, abstract = {first line \\\\\n}, u = "x\\\\\n", v = {y\\ \n}}\n@string{s = {z\\\\\n}}',
    # enclosed values whose content is the name of a defined @string, in fields with well-known keys
    '@string{jan = "Janvier"}\n@string{feb = {F}}\n@a{k, month = {jan}, note = "jan", year = {feb}}\n@b{j, month = "jan", pages = "feb", number = jan}',
    '@a{k, month = {jan}, year = "1990", volume = {12}, pages = {mar}}\n@string{mar = {M}}',
    # field keys spelled like the names Entry's item access reserves for the key and the type
    '@misc{smith20,\n  title = {T},\n  ID = {rec-77},\n  ENTRYTYPE = "legacy",\n  year = 2020\n}\n@a{k2, ENTRYTYPE = {x}}\n@b{ID, ID = ID}',
    # texts, keys and values ending in two, three and four backslashes (an even run is complete control sequences: it still
    # must not swallow the delimiter when read again)
    "@comment{a\\\\ }\n@comment{b\\\\\\ }\n@comment{c\\\\\\\\ }\n@a{k, t = {u}}\n@comment{reviewed by A. \\\\\n}\n@b{j}",
    "@a{k, t = {line break: \\\\ }, u = \"v\\\\ \", w = {x\\\\\\\\ }}\n@string{s = {z\\\\ }}\n@preamble{p\\\\ }",
]


def _nests():
    """Braced and quoted values with nesting depth 1..8 next to sibling groups (before, after, both)."""
    out = []
    for d in range(1, 9):
        n = "".join("{" + chr(98 + i) + " " for i in range(d)) + "x" + "}" * d
        for v in ("{a %s}" % n, "{%s {h}}" % n, "{{h} %s}" % n, "{a %s {h} %s z}" % (n, n), '"%s {h}"' % n, "{%s}" % n, n):
            out.append("@a{k, t = %s, u = {v}}" % v)
    return out


EXTRA_DOCS += _nests()


def documents(tier):
    """[(text, expected blocks)] - de-duplicated, deterministic order."""
    docs = []
    seen = set()

    def add(text, exp):
        if text not in seen:
            seen.add(text)
            docs.append((text, exp))

    heads = c02.HEADS[:2] if tier == "quick" else c02.HEADS
    keys = c02.KEYS[:2] if tier == "quick" else c02.KEYS
    for head in heads:
        for key in keys:
            for fields in c02.field_lists():
                if tier == "quick" and len(fields) > 2:
                    continue
                text, exp, _ = c02.render_entry(head, key, fields, False, " ")
                add(text, [exp])
            for fields in ([], [("t", "{x}")], [("t", '"x" # {y}'), ("u", "1")]):
                for trailing in (False, True):
                    for ws in c02.WS_FORMS:
                        text, exp, _ = c02.render_entry(head, key, fields, trailing, ws)
                        add(text, [exp])
    maxb = 2 if tier == "quick" else 3
    gaps = ["\n", "", "text\n"] if tier == "quick" else c02.GAPS
    for nb in range(1, maxb + 1):
        for ids in itertools.product(range(c02.NCAT), repeat=nb):
            if nb <= 2:
                gsets = itertools.product(gaps, repeat=nb + 1)
            else:
                gsets = [(g,) * (nb + 1) for g in gaps]
            for g in gsets:
                text, exp = c02.build_doc(ids, g)
                add(text, exp)
    for d in EXTRA_DOCS:
        add(d, None)
    return docs


_DOCS = {}


def docs_for(tier):
    if tier not in _DOCS:
        _DOCS[tier] = documents(tier)
    return _DOCS[tier]


def shards(tier):
    n = len(docs_for(tier))
    k = 64 if tier == "quick" else 256
    step = (n + k - 1) // k
    out = [("docs", a, min(n, a + step)) for a in range(0, n, step)]
    out += [("big", m, v) for m in (bigdocs.SIZES_QUICK if tier == "quick" else bigdocs.SIZES_THOROUGH) for v in (0, 1)]
    # ... and documents past the block counts a chunked or parallel pass would switch at (one variant; thorough has them above)
    out += [("big", m, 0) for m in (999, 1000, 1025, 2049, 4100)] if tier == "quick" else [("big", m, 0) for m in (999, 1000, 8200, 16400)]
    return out


def _hostile_library():
    from .. import hostile

    return hostile.libraries()[-5]()  # holds a block of a class the writer does not know


def check_doc(text, exp, fspecs, acc):
    rec = dialect.recognise(text)
    if rec is None or not dialect.unique_keys(rec) or (exp is not None and rec != exp):
        acc.count("oracle_disagreements" if exp is not None else "extra_doc_not_in_dialect")
        return
    nontrivial = any(b[0] != "implicit" for b in rec)
    try:
        shared = bibtexparser.parse_string(text)  # written again and again below: writing must leave it alone
        shared_canon = canon(shared)
    except Exception as e:
        acc.exception(e, {"text": text}, "parse_string", size=len(text))
        return
    for n, spec in enumerate(fspecs):
        case = {"text": text, "format": list(spec), "formats_written_before": [list(f) for f in fspecs[:n]]}
        acc.trace(4)
        acc.case(sample=lambda: {"text": text, "format": list(spec)}, nontrivial_key=(text, spec) if nontrivial else None)
        try:
            fmt = mkformat(spec)
            fcanon = canon(fmt)
            l1 = shared
            before = shared_canon
            w1 = bibtexparser.write_string(l1, bibtex_format=fmt)
            after = canon(l1)
            if n % 7 == 3:
                # the n-th write of a library equals the first write of a fresh parse
                w_fresh = bibtexparser.write_string(bibtexparser.parse_string(text), bibtex_format=mkformat(spec))
                if w_fresh != w1:
                    acc.violation(
                        {"oracle": "repeated_write_equals_first_write"},
                        {"case": case, "observed": w1, "expected": w_fresh},
                        size=len(text),
                    )
                    return
            l2 = bibtexparser.parse_string(w1)
            # a rejected write in between (same format object) must not leave anything behind
            try:
                bibtexparser.write_string(_hostile_library(), bibtex_format=fmt)
            except Exception:
                pass
            w2 = bibtexparser.write_string(l2, bibtex_format=fmt)
        except Exception as e:
            acc.exception(e, case, "parse/write round trip", size=len(text))
            continue
        s1 = acc.step(("doc", text), "parse", content(l1))
        acc.transition(s1, ("write", spec), acc.state(("text", w1)))
        acc.outcome(w1)
        if l1.failed_blocks:
            acc.count("first_parse_has_failed_blocks")  # (also C02's subject; the round trip is judged all the same)
        if before != after or canon(fmt) != fcanon:
            acc.violation(
                {"oracle": "writing_leaves_library_and_format", "what": "library" if before != after else "format"},
                {"case": case, "observed": "changed by write_string", "expected": "unchanged"},
                size=len(text),
            )
            continue
        c1, c2 = content(l1), content(l2)
        if c1 != c2:
            kinds = [b[0] for b in c2]
            import re as _re

            cause = None
            for b in c1:
                if b[0] == "Entry" and not _re.fullmatch(r"\w*", b[1]):
                    cause = "entry_type_lowercased_is_not_a_word"  # only U+0130: its lower() holds a combining mark
            what = "failed_block_after_rewrite" if any(k not in ("Entry", "String", "Preamble", "ExplicitComment", "ImplicitComment") for k in kinds) else ("block_count" if len(c1) != len(c2) else "block_content")
            acc.violation(
                {"oracle": "content_preserved", "what": what} if cause is None else {"oracle": "content_preserved", "cause": cause},
                {"case": case, "observed": c2, "expected": c1, "written": w1},
                size=len(text),
            )
            continue
        if w1 != w2:
            acc.violation(
                {"oracle": "written_text_is_fixpoint"},
                {"case": case, "observed": w2, "expected": w1},
                size=len(text),
            )


BIG_FORMATS = [("\t", 0, False, "\n\n"), ("", "auto", True, ""), ("  ", 12, False, "\n"), (" ", "auto", False, " ")]


def run_shard(shard, tier, acc):
    if shard[0] == "big":
        if shard[1:] == (1, 0):
            # "under the default parse and write stacks": a caller who derived a stack of their own from a list the factory
            # functions handed out has not changed what the default stacks are (C20's family, judged here for round trips too)
            from .c20 import check_factory_lists

            check_factory_lists(acc)
        text, exp = bigdocs.document(shard[1], shard[2])
        acc.count("big_documents")
        check_doc(text, exp, BIG_FORMATS, acc)
        return
    _, a, b = shard
    fs = formats(tier)
    for text, exp in docs_for(tier)[a:b]:
        acc.count("documents")
        check_doc(text, exp, fs, acc)


def replay(case, acc):
    if "factory_list" in case:
        from .c20 import check_factory_lists

        return check_factory_lists(acc)
    fs = [tuple(f) for f in case.get("formats_written_before", [])] + [tuple(case["format"])]
    check_doc(case["text"], None, fs, acc)


def unit_test(case):
    return (
        "import bibtexparser\n"
        f"text = {case['text']!r}\n"
        "fmt = bibtexparser.BibtexFormat()\n"
        f"fmt.indent, fmt.value_column, fmt.trailing_comma, fmt.block_separator = {tuple(case['format'])!r}\n"
        "l1 = bibtexparser.parse_string(text); w1 = bibtexparser.write_string(l1, bibtex_format=fmt)\n"
        "l2 = bibtexparser.parse_string(w1); w2 = bibtexparser.write_string(l2, bibtex_format=fmt)\n"
        "assert not l2.failed_blocks and len(l1.blocks) == len(l2.blocks)\n"
        "assert w1 == w2\n"
    )


def ENV_SHARDS(tier):
    """The broad, cheap families: run again in a fresh interpreter per environment (engine.run_environments)."""
    return [s for s in shards('quick') if s[0] == "big"]

