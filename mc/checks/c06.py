"""C06 — written text obeys the BibtexFormat contract and carries every block's content (DESIGN 4/C06)."""
import itertools

import bibtexparser
from bibtexparser.library import Library
from bibtexparser.model import (
    DuplicateBlockKeyBlock,
    DuplicateFieldKeyBlock,
    Entry,
    ExplicitComment,
    Field,
    ImplicitComment,
    MiddlewareErrorBlock,
    ParsingFailedBlock,
    Preamble,
    String,
)
from bibtexparser.splitter import Splitter
from bibtexparser.middlewares.middleware import BlockMiddleware
from bibtexparser.writer import BibtexFormat

from .. import bigdocs
from ..canon import canon, content

ID = "C06"
LEAN = True  # cases are distinct by construction; see engine.Acc
RULE = (
    "libraries = every sequence of <=2 (quick) / <=3 (thorough) blocks over a 19-block universe (entries with 0/1/3 fields, keys shorter/equal/"
    "longer than the column, two entries with different longest keys, string, preamble, both comment kinds, four kinds of failed blocks incl. "
    "multi-line, CRLF and newline-terminated raw) x formats = indent x value_column x trailing_comma x block_separator x parsing_failed_comment; "
    "written through write_string with an empty stack (values verbatim) and with the default stack (values brace-enclosed) and compared with a "
    "reference renderer written from the property text. Non-trivial = (library, format) with >=1 block (distinct)."
)
ASSUMPTIONS = [
    "every failed block carries a str raw (as every block produced by parsing does)",
    "{n} in the failed-block comment may be any of the usual line counts of the raw text (splitlines, '\\n'+1, '\\n' terminated); the property does not define it",
    "for strings, preambles and comments the exact layout is not constrained: they must end in a newline and re-parse to one block with the same content",
]
STATIC_SAMPLES = [{"library": ["E3", "PF"], "format": ["\t", "auto", True, "\n\n", "% failed ({n} lines)"]}]


from ..subtypes import S as _S, SE as _SE  # noqa: E402


def universe():
    # (every keyed block carries a raw text, as parsed blocks do: the same block held twice becomes a
    #  duplicate-key block that is emitted verbatim)
    e1 = Entry("book", "e1", [Field("a", "{x}")], raw="@book{e1, a = {x}}")
    return {
        "E0": Entry("article", "e0", [], raw="@article{e0}"),
        "E1": e1,
        "E3": Entry("misc", "e3", [Field("title", "{T}"), Field("a", "1"), Field("averyveryverylongfieldkey", "{v}")], raw="@misc{e3,\n ...}"),
        "E2": Entry("x", "e2", [Field("abcdefgh", "{y, z}"), Field("ab", '"q"')], raw="@x{e2, ...}"),
        "E5": Entry("y", "e5", [Field("abcde", "{five}")], raw="@y{e5, abcde = {five}}"),  # len(key)+3 == 8
        "EU": Entry("z", "eu", [Field("straße", "{x}"), Field("İstanbul_ﬁ", "{y}"), Field("k", "{z}")], raw="@z{eu, ...}"),
        "Ee": Entry("q", "ee", [Field("", "{x}")], raw="@q{ee, = {x}}"),  # the empty field key (the splitter yields it for ', = {x}'): length 0
        # the last value ends in characters the writer itself puts after a value; a key held twice (built by a program)
        "Ev": Entry("v", "ev", [Field("a", "{x}"), Field("b", "1990,")], raw="@v{ev, a = {x}, b = 1990,}"),
        "Er": Entry("r", "er", [Field("a", "{1}"), Field("bbbbbbbbbb", "{2}"), Field("a", "{3}\n")], raw="@r{er, ...}"),
        # keys and type that are strings without being exactly str (a str-Enum member's str() / format() is not its text),
        # values of a plain str subclass: written as the text they are.  (No str-Enum VALUES: the default unparse stack
        # encloses values by formatting them - as it must for ints, C10 - and C10 confines values to str and int.)
        "Es": Entry(_SE.TITLE, _S("es"), [Field(_SE.YEAR, "{x}"), Field(_S("abcdefghi"), _S("3")), Field(_SE.TITLE, _S("{y}"))], raw="@title{es, ...}"),
        "S": String("s", "{v}", raw="@string{s = {v}}"),
        "P": Preamble('"pre"'),
        "IC": ImplicitComment("% free text"),
        "EC": ExplicitComment("expl {c}"),
        "PF": ParsingFailedBlock(error=Exception("e"), raw="@a{k,\n x\n y", start_line=3),
        "PFcr": ParsingFailedBlock(error=Exception("e"), raw="@a{k,\r\n y = \r\n", start_line=0),
        "DK": DuplicateBlockKeyBlock(key="e1", previous_block=e1, duplicate_block=Entry("book", "e1", [Field("a", "{dup}")], raw="@book{e1, a = {dup}}"), raw="@book{e1, a = {dup}}"),
        "DF": DuplicateFieldKeyBlock({"a"}, Entry("a", "df", [Field("a", "1"), Field("a", "2")], raw="@a{df, a=1,\n a=2}")),
        "ME": MiddlewareErrorBlock(Entry("a", "me", [Field("author", "x,")], raw="@a{me, author = {x,}}"), error=ValueError("bad")),
    }


NAMES = list(universe())
DEFAULT_PFC = BibtexFormat().parsing_failed_comment


AUTO2 = "auto (an equal string built at run time)"  # marker: mkformat() sets value_column to "".join(["au", "to"])


def formats(tier):
    ind = ["", " ", "\t", "    "]
    vc = [0, 1, 4, 5, 8, 9, 10, 40, "auto", AUTO2] if tier == "quick" else list(range(0, 41)) + ["auto", AUTO2]
    sep = ["", "\n", "\n\n", " ", "\n% --\n"]
    pfc = [DEFAULT_PFC, "% failed ({n} lines)", "% no placeholder", ""]
    if tier == "quick":
        return [(i, v, t, s, p) for i in ind for v in vc for t in (False, True) for s in sep for p in pfc]
    # thorough: full product over the first four settings with the default comment, plus the comment crossed with a reduced column set
    out = [(i, v, t, s, DEFAULT_PFC) for i in ind for v in vc for t in (False, True) for s in sep]
    out += [(i, v, t, s, p) for i in ind for v in (0, 9, "auto") for t in (False, True) for s in sep for p in pfc[1:]]
    return out


def bounds(tier):
    return {"universe": NAMES, "max_blocks": 2 if tier == "quick" else 3, "formats": len(formats(tier)), "routes": ["unparse_stack=[]", "default unparse stack"]}


BIG_FORMATS = [("\t", 0, False, "\n\n", DEFAULT_PFC), ("", "auto", True, "", "% failed ({n} lines)"), ("  ", 9, False, "\n% --\n", DEFAULT_PFC), (" ", "auto", False, " ", "")]


def check_big(n, acc):
    """Parsed documents of n entries (plus strings, comments, a failed and a duplicate block), written under several
    formats: the same laws, on libraries whose output has thousands of pieces."""
    text, _ = bigdocs.document(n, 1)
    text += "\n@article{Key0:x, dup = {d}}\n@broken{zz, a b}\n"
    for spec in BIG_FORMATS:
        for route in ("verbatim", "default"):
            lib = bibtexparser.parse_string(text)
            acc.count("big_libraries")
            check_lib(("big", n), spec, acc, route, lib=lib, case_extra={"big": n})


WIDE = [1, 2, 31, 32, 33, 63, 64, 65, 66, 70, 127, 128, 129, 255, 256, 257, 300, 1000]


def check_wide(acc, tier):
    """Columns and field keys far beyond the usual: value_column and key lengths around every power of two up to 1000
    (padding of hundreds of blanks, keys longer than the column, 'auto' over keys of very different lengths)."""
    sizes = WIDE if tier != "quick" else [1, 33, 64, 65, 70, 129, 257, 1000]
    for ks in sizes:
        for kl in sizes:
            if kl < ks:
                continue
            for vc in sizes + ["auto"]:
                for ind, tc in (("", False), ("\t", True)):
                    lib = Library([Entry("article", "w1", [Field("k" * ks, "{short}"), Field("m" * kl, "{long}"), Field("z", "1")]), Entry("book", "w2", [Field("y", "{other entry}")])])
                    spec = (ind, vc, tc, "\n", DEFAULT_PFC)
                    acc.count("wide_libraries")
                    check_lib(("wide", ks, kl), spec, acc, "verbatim", lib=lib, case_extra={"wide": [ks, kl]})


def check_same_object(acc):
    """The very same block object held at several positions (a divider comment added again and again, a preamble
    shared by merged files): every position is a block of its own for the writer."""
    for spec in BIG_FORMATS:
        for route in ("verbatim", "default"):
            uni = universe()
            for names in (("IC", "E1", "IC", "E3", "IC"), ("P", "IC", "P"), ("EC", "EC"), ("IC", "IC", "E0", "IC", "IC")):
                blocks = [uni[n] for n in names]
                lib = Library(blocks)
                acc.count("same_object_libraries")
                check_lib(("same-object",) + names, spec, acc, route, lib=lib, case_extra={"same_object": list(names)})
            # ... and the very same Field object held by several entries (a library built in code: a common 'year' or
            # 'publisher' field shared by all entries of a proceedings volume): written like entries holding equal fields
            shared = Field("year", "2020")
            pub = Field("publisher", "{P}")
            mk = lambda sh: Library([Entry("inproceedings", f"p{i}", [Field("title", f"{{T{i}}}")] + ([shared, pub] if sh else [Field("year", "2020"), Field("publisher", "{P}")])) for i in range(3)])
            try:
                kw = {"unparse_stack": []} if route == "verbatim" else {}
                lib_s = mk(True)
                a1 = bibtexparser.write_string(lib_s, bibtex_format=mkformat(spec), **kw)
                a2 = bibtexparser.write_string(lib_s, bibtex_format=mkformat(spec), **kw)
                b = bibtexparser.write_string(mk(False), bibtex_format=mkformat(spec), **kw)
                acc.trace(3)
                acc.case(nontrivial_key=("shared-field", spec, route))
                if a1 != b or a2 != b:
                    acc.violation({"oracle": "shared_field_object_written_like_equal_fields", "write": 1 if a1 != b else 2}, {"case": {"same_object": ["a Field object shared by three entries"], "format": list(spec), "route": route}, "observed": a1 if a1 != b else a2, "expected": b})
            except Exception as ex:
                acc.exception(ex, {"same_object": ["a Field object shared by three entries"], "format": list(spec), "route": route}, "write_string")


EDIT_SPECS = [
    ("\t", 0, False, "\n\n", DEFAULT_PFC),
    ("\t", 12, False, "\n\n", DEFAULT_PFC),
    ("\t", 4, False, "\n\n", DEFAULT_PFC),
    ("\t", "auto", False, "\n\n", DEFAULT_PFC),
    ("  ", 0, False, "\n\n", DEFAULT_PFC),
    ("", 12, True, "\n", DEFAULT_PFC),
    ("\t", 0, True, "\n\n", DEFAULT_PFC),
    ("\t", 0, False, "\n% --\n", "% failed ({n} lines)"),
    (" ", 40, True, "", ""),
]


def check_format_edited(acc):
    """ONE format object, edited by the caller between writes (every ordered pair of settings, and back again): each
    write is what a fresh format object holding the settings of that moment gives."""
    for route in ("verbatim", "default"):
        kw = {"unparse_stack": []} if route == "verbatim" else {}
        uni = universe()
        lib = Library([uni["E1"], uni["S"], uni["E3"], uni["PF"], uni["IC"], uni["E5"], uni["E0"]])
        fresh = {}
        for spec in EDIT_SPECS:
            try:
                fresh[spec] = bibtexparser.write_string(lib, bibtex_format=mkformat(spec), **kw)
            except Exception as ex:
                acc.exception(ex, {"format_edited": [list(spec)], "route": route}, "write_string")
                return
        for a in EDIT_SPECS:
            for b in EDIT_SPECS:
                if a == b:
                    continue
                acc.trace(3)
                acc.case(nontrivial_key=("format-edited", route, a, b))
                acc.count("format_edited_sequences")
                f = mkformat(a)
                seq = []
                try:
                    for spec in (a, b, a):
                        f.indent, f.value_column, f.trailing_comma, f.block_separator, f.parsing_failed_comment = spec
                        seq.append(list(spec))
                        out = bibtexparser.write_string(lib, bibtex_format=f, **kw)
                        if out != fresh[spec]:
                            acc.violation(
                                {"oracle": "edited_format_equals_fresh_format", "write_number": len(seq)},
                                {"case": {"format_edited": seq, "route": route}, "observed": out, "expected": fresh[spec]},
                            )
                            break
                except Exception as ex:
                    acc.exception(ex, {"format_edited": seq, "route": route}, "write_string")
                acc.step(("format", a), ("edit", b), hash(fresh[b]))


class _ReenteringLibrary(Library):
    """A user's Library subclass whose `blocks` view, at its n-th reading, starts a complete second write with the SAME
    format object (think: a logging / progress hook, or a second thread sharing the format) - and otherwise is a Library."""

    armed = None  # (n, inner_library, fmt, results)

    @property
    def blocks(self):
        st = self.armed
        if st is not None:
            st[0] -= 1
            if st[0] < 0:
                self.armed = None
                try:
                    st[3].append(("ok", bibtexparser.writer.write(st[1], st[2])))
                except Exception as ex:
                    st[3].append(("raised", type(ex).__name__))
        return Library.blocks.fget(self)


def check_write_in_flight(acc):
    """Two writes in flight on one format object: the outer write is what it is without the inner one, the inner one what
    it is alone, the format object is what it was."""
    import bibtexparser.writer  # noqa

    uni = universe()
    outer_names = ["E1", "S", "E3", "PF", "IC", "E5"]
    inner_names = ["E0", "E2", "P"]
    for spec in EDIT_SPECS[:6]:
        fresh = lambda: mkformat(spec)
        exp_outer = bibtexparser.writer.write(Library([uni[n] for n in outer_names]), fresh())
        exp_inner = bibtexparser.writer.write(Library([_clone(uni[n]) for n in inner_names]), fresh())
        for nth in range(0, 6):
            lib = _ReenteringLibrary([uni[n] for n in outer_names])
            inner = Library([_clone(uni[n]) for n in inner_names])
            fmt = fresh()
            before = canon(fmt)
            results = []
            lib.armed = [nth, inner, fmt, results]
            case = {"write_in_flight": list(spec), "inner_write_at_blocks_reading": nth}
            acc.trace(2)
            acc.case(nontrivial_key=("write-in-flight", spec, nth))
            acc.count("writes_in_flight")
            try:
                got = bibtexparser.writer.write(lib, fmt)
            except Exception as ex:
                acc.exception(ex, case, "writer.write")
                continue
            acc.step(("format", spec), ("inner write at reading", nth), hash(got))
            if got != exp_outer:
                acc.violation({"oracle": "outer_write_unaffected_by_a_write_in_flight"}, {"case": case, "observed": got, "expected": exp_outer})
            elif results and results[0] != ("ok", exp_inner):
                acc.violation({"oracle": "inner_write_in_flight_equals_write_alone"}, {"case": case, "observed": repr(results[0])[:600], "expected": exp_inner})
            elif canon(fmt) != before:
                acc.violation({"oracle": "format_left_unchanged", "path": "write in flight"}, {"case": case, "observed": repr(vars(fmt)), "expected": list(spec)})


def check_history(acc):
    """The same Library and BibtexFormat objects over a history of writes and in-place edits (longer / shorter keys,
    added and removed fields and blocks): every write obeys the contract for the library as it is then."""
    for spec in BIG_FORMATS + [("", "auto", False, "\n", DEFAULT_PFC)]:
        for route in ("verbatim", "default"):
            uni = universe()
            lib = Library([uni["E1"], uni["S"], uni["E3"], uni["PF"], uni["E5"]])
            steps = [
                ("write", None),
                ("set a longer key", lambda: uni["E1"].set_field(Field("quite_a_long_field_key_indeed", "{z}"))),
                ("assign item", lambda: uni["E5"].__setitem__("x", "{1}")),
                ("pop the longest", lambda: uni["E1"].pop("quite_a_long_field_key_indeed")),
                ("pop another longest", lambda: uni["E3"].pop("averyveryverylongfieldkey")),
                ("rename key", lambda: setattr(uni["E3"].fields[0], "key", "renamed_title_key")),
                ("add block", lambda: lib.add(uni["E2"])),
                ("remove block", lambda: lib.remove(uni["E3"])),
                ("replace block", lambda: lib.replace(uni["E5"], uni["E0"])),
            ]
            done = []
            fmt_shared = mkformat(spec)
            for label, action in steps:
                if action is not None:
                    action()
                done.append(label)
                acc.count("history_writes")
                check_lib(("history",) + tuple(done), spec, acc, route, lib=lib, case_extra={"history": list(done)})
                # a write that is rejected (hostile library / broken comment template) with a long-lived format object:
                # the format must come out as it went in, and the next good write must be as with a fresh format
                from .. import hostile

                for hn, mk in enumerate(hostile.libraries()[-6:] + [lambda: Library([uni["PF"]])]):
                    before = canon(fmt_shared)
                    bad_tpl = hn == 6
                    if bad_tpl:
                        fmt_shared.parsing_failed_comment = "% {n} {no_such_placeholder}"
                    try:
                        bibtexparser.write_string(mk(), bibtex_format=fmt_shared, **({"unparse_stack": []} if route == "verbatim" else {}))
                    except Exception:
                        pass
                    if bad_tpl:
                        fmt_shared.parsing_failed_comment = spec[4]
                    if canon(fmt_shared) != before:
                        acc.violation(
                            {"oracle": "format_left_unchanged", "path": "rejected write"},
                            {"case": {"history": list(done), "format": list(spec), "route": route, "rejected_write": hn}, "observed": repr(vars(fmt_shared)), "expected": list(spec)},
                        )
                        fmt_shared = mkformat(spec)
                try:
                    a = bibtexparser.write_string(lib, bibtex_format=fmt_shared, **({"unparse_stack": []} if route == "verbatim" else {}))
                    b = bibtexparser.write_string(lib, bibtex_format=mkformat(spec), **({"unparse_stack": []} if route == "verbatim" else {}))
                    if a != b:
                        acc.violation(
                            {"oracle": "long_lived_format_equals_fresh_format"},
                            {"case": {"history": list(done), "format": list(spec), "route": route}, "observed": a, "expected": b},
                        )
                        fmt_shared = mkformat(spec)
                except Exception as ex:
                    acc.exception(ex, {"history": list(done), "format": list(spec), "route": route}, "write_string")


def shards(tier):
    maxb = 2 if tier == "quick" else 3
    out = [("libs", ()), ("history", 0), ("same", 0), ("wide", 0)] + [("big", n) for n in (bigdocs.SIZES_QUICK + [1000, 1025, 2049, 4100] if tier == "quick" else bigdocs.SIZES_THOROUGH + [1000, 8200, 16400])]
    for a in NAMES:
        if maxb == 2:
            out.append(("libs", (a,)))
        else:
            for b in NAMES:
                out.append(("libs", (a, b)))
    return out


def mkformat(spec):
    f = BibtexFormat()
    spec = tuple(spec)
    if spec[1] == AUTO2:
        spec = (spec[0], "".join(["au", "to"])) + spec[2:]  # equal to, but not, the literal 'auto'
    f.indent, f.value_column, f.trailing_comma, f.block_separator, f.parsing_failed_comment = spec
    return f


def line_counts(raw):
    return {len(raw.splitlines()), raw.count("\n") + 1, raw.count("\n") + (0 if raw.endswith("\n") else 1)}


def render_entry(e, spec, col, enclose):
    indent, _, trailing, _, _ = spec
    out = ["@", e.entry_type, "{", e.key, ",\n"]
    n = len(e.fields)
    for i, f in enumerate(e.fields):
        v = f.value
        if enclose:
            v = "{" + v + "}"
        pad = " " * max(0, col - len(f.key) - 3)
        out += [indent, f.key, pad, " = ", v]
        if trailing or i < n - 1:
            out.append(",")
        out.append("\n")
    out.append("}\n")
    return "".join(out)


def auto_column(blocks):
    m = 0
    for b in blocks:
        if type(b) is Entry:
            for f in b.fields:
                m = max(m, len(f.key))
    return m + 3


class LongerKeys(BlockMiddleware):
    """A user's copy-mode middleware that lengthens every field key (what 'auto' must be computed from is the library the
    WRITER gets, i.e. after the stack)."""

    def __init__(self):
        super().__init__(allow_inplace_modification=False)

    def transform_entry(self, entry, library):
        for f in entry.fields:
            f.key = f.key + "_renamed_by_the_stack"
        return entry


def check_lib(names, spec, acc, route, lib=None, case_extra=None):
    if lib is None:
        uni = universe()
        blocks = [uni[n] for n in names]
        lib = Library(blocks)
    if route == "stack changes keys":
        # write_string(lib, unparse_stack=[m]) == the writer's contract on m.transform(lib), judged by the verbatim route
        try:
            out1 = bibtexparser.write_string(lib, unparse_stack=[LongerKeys()], bibtex_format=mkformat(spec))
            out2 = bibtexparser.write_string(LongerKeys().transform(lib), unparse_stack=[], bibtex_format=mkformat(spec))
        except Exception as e:
            acc.exception(e, {"library": list(names), "format": list(spec), "route": route}, "write_string with a user middleware")
            return
        acc.trace(2)
        acc.case(nontrivial_key=(names, spec, route) if names else None)
        if out1 != out2:
            acc.violation({"oracle": "entry_rendering", "what": "layout computed before the stack ran"}, {"case": {"library": list(names), "format": list(spec), "route": route}, "observed": out1[:400], "expected": out2[:400]})
        return check_lib(names, spec, acc, "verbatim", lib=LongerKeys().transform(lib), case_extra={"after": "LongerKeys"})
    fmt = mkformat(spec)
    fcanon = canon(fmt)
    lcanon = canon(lib)
    case = {"library": list(names), "format": list(spec), "route": route}
    if case_extra:
        case.update(case_extra)
    acc.trace()
    try:
        if route == "verbatim":
            out = bibtexparser.write_string(lib, unparse_stack=[], bibtex_format=fmt)
        else:
            out = bibtexparser.write_string(lib, bibtex_format=fmt)
    except Exception as e:
        acc.exception(e, case, "write_string")
        acc.case()
        return
    acc.case(sample=(lambda: {"library": list(names), "format": list(spec), "route": route, "output": out}) if len(out) < 600 else None, nontrivial_key=(names, spec, route) if names else None)
    s = acc.step(("lib", names, route), ("write", spec), ("out", out))
    acc.outcome(out)
    if canon(fmt) != fcanon:
        acc.violation({"oracle": "format_left_unchanged"}, {"case": case, "observed": repr(vars(fmt)), "expected": list(spec)})
        return
    if canon(lib) != lcanon:
        acc.violation({"oracle": "library_left_unchanged"}, {"case": case, "observed": "library changed", "expected": "unchanged"})
        return
    indent, vc, trailing, sep, pfc = spec
    col = auto_column(lib.blocks) if vc in ("auto", AUTO2) else vc
    enclose = route == "default"
    # walk the output block by block
    pos = 0
    for i, b in enumerate(lib.blocks):
        if i > 0:
            if not out.startswith(sep, pos):
                acc.violation(
                    {"oracle": "separator_between_blocks", "after": type(lib.blocks[i - 1]).__name__},
                    {"case": case, "observed": out, "expected": f"separator {sep!r} at offset {pos}"},
                )
                return
            pos += len(sep)
        if type(b) is Entry:
            exp = render_entry(b, spec, col, enclose)
            if not out.startswith(exp, pos):
                what = "entry_layout"
                alt = render_entry(b, (indent, vc, not trailing, sep, pfc), col, enclose)
                if out.startswith(alt, pos):
                    what = "comma_rule"
                else:
                    for c2 in range(0, 60):
                        if c2 != col and out.startswith(render_entry(b, spec, c2, enclose), pos):
                            what = "value_column" + ("_auto" if vc in ("auto", AUTO2) else "")
                            break
                acc.violation(
                    {"oracle": "entry_rendering", "what": what},
                    {"case": case, "observed": out[pos : pos + len(exp) + 20], "expected": exp, "full_output": out},
                )
                return
            pos += len(exp)
        elif isinstance(b, ParsingFailedBlock):
            ok = False
            for n in sorted(line_counts(b.raw)):
                try:
                    head = pfc.format(n=n)
                except Exception:
                    head = pfc
                exp = head + "\n" + b.raw + "\n"
                if out.startswith(exp, pos):
                    ok = True
                    break
            if not ok:
                what = "verbatim_raw" if b.raw not in out[pos : pos + 4 * len(b.raw) + 400] else "configured_comment"
                acc.violation(
                    {"oracle": "failed_block_rendering", "what": what, "block": type(b).__name__},
                    {"case": case, "observed": out[pos : pos + len(b.raw) + len(pfc) + 20], "expected": f"{pfc!r}.format(n=lines) + '\\n' + raw + '\\n'", "raw": b.raw},
                )
                return
            pos += len(exp)
        else:
            # string / preamble / comments: take the piece up to the next separator+block or the end, require the
            # trailing newline and that it re-parses to one block with the same content
            single = bibtexparser.write_string(Library([_clone(b)]), unparse_stack=[] if route == "verbatim" else None, bibtex_format=mkformat(spec))
            if not out.startswith(single, pos):
                acc.violation(
                    {"oracle": "block_text_independent_of_neighbours", "block": type(b).__name__},
                    {"case": case, "observed": out[pos : pos + len(single) + 10], "expected": single},
                )
                return
            if not single.endswith("\n"):
                acc.violation({"oracle": "block_ends_in_newline", "block": type(b).__name__}, {"case": case, "observed": single, "expected": "trailing newline"})
                return
            back = Splitter(single).split().blocks
            expc = content(b)
            if enclose and isinstance(b, String):
                expc = ("String", b.key, canon("{" + b.value + "}"))
            if isinstance(b, Preamble):
                ok = len(back) == 1 and isinstance(back[0], Preamble) and back[0].value.strip() == b.value.strip()
            else:
                ok = len(back) == 1 and content(back[0]) == expc
            if not ok:
                acc.violation(
                    {"oracle": "block_content_carried", "block": type(b).__name__},
                    {"case": case, "observed": [content(x) for x in back], "expected": expc, "text": single},
                )
                return
            pos += len(single)
    if pos != len(out):
        acc.violation(
            {"oracle": "nothing_after_last_block", "separator_repeated": out[pos:] == sep},
            {"case": case, "observed": out[pos:], "expected": "end of output (no separator after the last block)"},
        )


def _clone(b):
    import copy

    return copy.deepcopy(b)


def run_shard(shard, tier, acc):
    if shard[0] == "big":
        return check_big(shard[1], acc)
    if shard[0] == "history":
        return check_history(acc)
    if shard[0] == "same":
        check_format_edited(acc)
        check_write_in_flight(acc)
        return check_same_object(acc)
    if shard[0] == "wide":
        return check_wide(acc, tier)
    _, prefix = shard
    maxb = 2 if tier == "quick" else 3
    fs = formats(tier)
    if prefix == ():
        libs = [()]
    else:
        # this shard owns: the prefix itself (if it is the shortest owner) and all extensions by one block
        libs = []
        if len(prefix) == 1:
            libs.append(prefix)
            if maxb == 2:
                libs += [prefix + (x,) for x in NAMES]
        if len(prefix) == 2:
            libs.append(prefix)
            libs += [prefix + (x,) for x in NAMES]
            if prefix[1] == NAMES[0]:
                libs.append(prefix[:1])
    for names in libs:
        acc.count("libraries")
        for n_, spec in enumerate(fs):
            for route in ("verbatim", "default") + (("stack changes keys",) if n_ % 8 == 0 or spec[1] in ("auto", AUTO2) else ()):
                check_lib(names, spec, acc, route)


def replay(case, acc):
    if "big" in case:
        return check_big(case["big"], acc)
    if "history" in case:
        return check_history(acc)
    if "same_object" in case:
        return check_same_object(acc)
    if "format_edited" in case:
        return check_format_edited(acc)
    if "write_in_flight" in case:
        return check_write_in_flight(acc)
    if "wide" in case:
        ks, kl = case["wide"]
        lib = Library([Entry("article", "w1", [Field("k" * ks, "{short}"), Field("m" * kl, "{long}"), Field("z", "1")]), Entry("book", "w2", [Field("y", "{other entry}")])])
        return check_lib(("wide", ks, kl), tuple(case["format"]), acc, "verbatim", lib=lib, case_extra={"wide": [ks, kl]})
    check_lib(tuple(case["library"]), tuple(case["format"]), acc, case.get("route", "verbatim"))


def unit_test(case):
    return "# library (names from mc/checks/c06.py universe) and format (indent, value_column, trailing_comma, block_separator, parsing_failed_comment):\n# " + repr(case) + "\n"


def ENV_SHARDS(tier):
    """The broad, cheap families: run again in a fresh interpreter per environment (engine.run_environments)."""
    return [s for s in shards('quick') if s[0] in ("history", "same", "wide", "big") or s == ("libs", ())]

