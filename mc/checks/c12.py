"""C12 — co-author splitting loses nothing and splits only at top-level ' and ' (DESIGN 4/C12)."""
import itertools
import re

from bibtexparser.library import Library
from bibtexparser.middlewares.names import MergeCoAuthors, SeparateCoAuthors, SplitNameParts, split_multiple_persons_names
from bibtexparser.model import Entry, Field

from .. import refs_names as R
from ..canon import canon
from .. import spaces
from ..engine import seq_iter, seq_shards

ID = "C12"
LEAN = True  # cases are distinct by construction; see engine.Acc
RULE = (
    "every token sequence over a 19-token alphabet (words, 'and' in three cases, partial 'an'/'d', space/tab/newline, '~', ',', "
    "braces, backslash escapes, CR, NBSP, VT) up to the length bound, plus every list of 1-4 catalogue names joined by every separator spelling; "
    "conservation and idempotence on every string, the exact separator rule (independent word-based reference splitter) on every "
    "brace-balanced one, and the same through SeparateCoAuthors/MergeCoAuthors. Non-trivial = the reference finds a separator or "
    "the string contains an 'and' look-alike that is not one (distinct by string)."
)
ASSUMPTIONS = ["whitespace for this clause is the set documented by the co-author code: space, CR, LF, tab"]
STATIC_SAMPLES = ["A B and \\'Etienne C", "x a\\xnd y"]

SIGMA = ["A", " ", "and", "AND", "aNd", "an", "d", "\t", "\n", "~", ",", "{", "}", "\\x", "\\ ", "\\",
         "\r", "\xa0", "\x0b"]  # CR is a separator; NBSP and VT are whitespace for str.isspace() but not for this rule
SIGMA_CORE = ["A", " ", "and", "aNd", "an", "d", "\t", "{", "}", "\\x"]

CATALOGUE = [
    "Donald E. Knuth",
    "Knuth, Donald E.",
    "{Simon and Schuster}",
    "de la Vall{\\'e}e~Poussin, Charles",
    "\\'Etienne Ghys",
    "and Anderson",
    "Ludwig van Beethoven",
    "Ford, Jr., Henry",
    "B{\\\"o}ll and{x}",
    "J.~R.~R. Tolkien\\ ",
    "\u0130lker Y\u0131ld\u0131z",  # lower() of U+0130 is two characters
    "D.\xa0E. Knuth\xa0",  # no-break spaces are ordinary characters of a name
    "{{Example Corp}}",  # a person starting with a nested brace group
]
SEPS = [" and ", " AND ", "\tand\n", "  and  ", "\nAnd "]
# bases for deviation bounding (token lists over SIGMA): every string within k token edits is explored
BASES = [
    ["A", " ", "and", " ", "A"],
    ["A", " ", "A", " ", "and", " ", "A", ",", " ", "A", " ", "AND", " ", "{", "A", " ", "and", " ", "A", "}"],
    ["\\x", "A", " ", "and", "\n", "A", "~", "A", "\t", "and", " ", "\\x", "A"],
    ["\u0130", " ", "and", " ", "{", "{", "A", "}", "}", " ", "and", " ", "\u0130", "\xa0", "A"],
]


def bounds(tier):
    return {
        "alphabet": SIGMA,
        "max_len": 5 if tier == "quick" else 6,
        "core_alphabet_max_len": None if tier == "quick" else 7,
        "deviation_bases": ["".join(b) for b in BASES],
        "deviation_bound": 2 if tier == "quick" else 3,
        "catalogue_names": len(CATALOGUE),
        "max_list_len": 3 if tier == "quick" else 4,
        "separators": SEPS,
    }


def shards(tier):
    out = [("seq", s) for s in seq_shards(SIGMA, 5 if tier == "quick" else 6)]
    if tier == "thorough":
        out += [("core", s) for s in seq_shards(SIGMA_CORE, 7, min_len=7)]
    out += [("lists", i) for i in range(len(CATALOGUE))]
    out += [("mw", 0), ("depth", 0), ("aftersiblings", 0)] + [("midlists", i) for i in range(5)]
    out += spaces.ball_shards(1, 3 if tier == "thorough" else 2)
    out += [("ball", b, 2, st, n) for (_, b, _, st, n) in spaces.ball_shards(len(BASES), 2) if b > 0]
    return out


_SEP_RE = r"[ \r\n\t]+[aA][nN][dD][ \r\n\t]+"


def check_string(s, acc, case=None):
    case = case if case is not None else {"string": s}
    acc.trace()
    try:
        pieces = split_multiple_persons_names(s)
    except Exception as e:
        acc.exception(e, case, "split_multiple_persons_names", size=len(s))
        acc.case()
        return None
    stripped = s.strip(R.CO_WS)
    # (the rule speaks of brace depth 0: defined wherever the depth never goes below zero, also if a group stays open)
    ref = R.split_coauthors(s) if R.never_negative(stripped) else None
    lookalike = re.search(r"(?i)an?d?", stripped) is not None
    nontrivial = (ref is not None and len(ref) > 1) or (lookalike and ref is not None)
    acc.case(sample=lambda: {"string": s, "pieces": pieces}, nontrivial_key=s if nontrivial else None)
    acc.step(("s", s), "split", tuple(pieces) if isinstance(pieces, list) else ("?", repr(pieces)))
    acc.outcome(len(pieces) if isinstance(pieces, list) else -1)
    ok = True
    # conservation
    good = isinstance(pieces, list) and all(isinstance(p, str) and p != "" for p in pieces)
    if good:
        if pieces:
            rx = _SEP_RE.join(re.escape(p) for p in pieces)
            good = re.fullmatch(rx, stripped) is not None
        else:
            good = stripped == ""
    if not good:
        acc.violation(
            {"oracle": "conservation"},
            {"case": case, "observed": pieces, "expected": "contiguous non-empty pieces that, with ' and ' separators, account for every non-whitespace character"},
            size=len(s),
        )
        ok = False
    # idempotence
    if ok:
        try:
            again = split_multiple_persons_names(" and ".join(pieces))
        except Exception as e:
            again = f"raised {type(e).__name__}"
        acc.trace()
        if again != pieces:
            acc.violation(
                {"oracle": "idempotence"},
                {"case": case, "observed": again, "expected": pieces},
                size=len(s),
            )
            ok = False
    # exact rule
    if ref is not None and pieces != ref:
        acc.violation(
            {"oracle": "separator_rule", "direction": "oversplit" if isinstance(pieces, list) and len(pieces) > len(ref) else ("undersplit" if isinstance(pieces, list) and len(pieces) < len(ref) else "boundaries")},
            {"case": case, "observed": pieces, "expected": ref},
            size=len(s),
        )
        ok = False
    return pieces


def check_middleware(acc):
    """The same through SeparateCoAuthors / MergeCoAuthors, on name fields and a non-name field."""
    strings = [a + sep + b for a in CATALOGUE[:6] for b in CATALOGUE[:6] for sep in SEPS[:3]] + CATALOGUE + ["", "  "]
    for s in strings:
        for inplace in (True, False):
            from ..subtypes import S

            # the caller edits what an earlier call returned, then the same text is split again (function and middleware)
            try:
                r1 = split_multiple_persons_names(s)
                keep = list(r1)
                r1.append("edited by the caller")
                r1[:1] = []
                r2 = split_multiple_persons_names(s)
                if r2 != keep or r2 is r1:
                    acc.violation({"oracle": "result_is_independent_of_earlier_results", "route": "function"}, {"case": {"middleware": s, "inplace": inplace}, "observed": r2, "expected": keep})
            except Exception as ex:
                acc.exception(ex, {"middleware": s, "inplace": inplace}, "split_multiple_persons_names twice")
            # (translator: an instance of a str subclass - a string all the same)
            fields = [Field("author", s), Field("title", s), Field("editor", s), Field("translator", S(s)), Field("Author", s)]
            if "and" in s.lower():
                # programmatically built entries may hold a key twice: every occurrence is its own value
                twice = Entry("article", "k2", [Field("author", s), Field("author", "X Y" + SEPS[0] + "Z"), Field("author", s)])
                try:
                    o = SeparateCoAuthors(allow_inplace_modification=inplace).transform(Library([twice])).blocks[0]
                    got3 = [f.value for f in o.fields]
                    exp3 = [R.split_coauthors(s), ["X Y", "Z"], R.split_coauthors(s)]
                    if got3 != exp3:
                        acc.violation({"oracle": "middleware_separates_name_fields", "field": "author (key held twice)"}, {"case": {"middleware": s, "inplace": inplace}, "observed": got3, "expected": exp3})
                except Exception as ex:
                    acc.exception(ex, {"middleware": s, "inplace": inplace}, "SeparateCoAuthors on an entry holding a key twice")
            e = Entry("article", "k", fields, start_line=3, raw="raw")
            lib = Library([e])
            acc.trace()
            acc.case(nontrivial_key=("mw", s, inplace))
            try:
                out = SeparateCoAuthors(allow_inplace_modification=inplace).transform(lib)
                e2 = out.entries[0]
                exp = R.split_coauthors(s)
                got = {f.key: f.value for f in e2.fields}
                case = {"middleware": s, "inplace": inplace}
                for k in ("author", "editor", "translator"):
                    if got[k] != exp:
                        acc.violation({"oracle": "middleware_separates_name_fields", "field": k}, {"case": case, "observed": got[k], "expected": exp})
                for k in ("title", "Author"):
                    if got[k] != s:
                        acc.violation({"oracle": "middleware_leaves_other_fields", "field": k}, {"case": case, "observed": got[k], "expected": s})
                if [f.key for f in e2.fields] != [f.key for f in fields] or (e2.entry_type, e2.key, e2.start_line, e2.raw) != ("article", "k", 3, "raw"):
                    acc.violation({"oracle": "middleware_leaves_entry"}, {"case": case, "observed": repr(e2), "expected": "same keys/type/key/line/raw"})
                # results edited by the caller, then an equal entry goes through a (new and the same) middleware
                for f in e2.fields:
                    if isinstance(f.value, list):
                        f.value.append("edited by the caller")
                again = SeparateCoAuthors(allow_inplace_modification=inplace).transform(Library([Entry("article", "k", [Field("author", s), Field("editor", s)])])).entries[0]
                if [f.value for f in again.fields] != [exp, exp] or again.fields[0].value is again.fields[1].value:
                    acc.violation({"oracle": "result_is_independent_of_earlier_results", "route": "middleware"}, {"case": case, "observed": [f.value for f in again.fields], "expected": [exp, exp]})
                for f in e2.fields:
                    if isinstance(f.value, list):
                        f.value.pop()
                back = MergeCoAuthors(allow_inplace_modification=inplace).transform(out).entries[0]
                got2 = {f.key: f.value for f in back.fields}
                for k in ("author", "editor", "translator"):
                    if got2[k] != " and ".join(exp):
                        acc.violation({"oracle": "middleware_merge", "field": k}, {"case": case, "observed": got2[k], "expected": " and ".join(exp)})
                # ... and splitting again gives the same pieces: the merged entry (the same object in in-place mode, with whatever
                # the two earlier passes left in its metadata) goes through the splitter a second and a third time
                cur = Library([back])
                for round_ in (2, 3):
                    cur = SeparateCoAuthors(allow_inplace_modification=inplace).transform(cur)
                    got3 = {f.key: f.value for f in cur.entries[0].fields}
                    exp3 = R.split_coauthors(" and ".join(exp))
                    for k in ("author", "editor", "translator"):
                        if got3[k] != exp3:
                            acc.violation({"oracle": "separate_merge_separate", "field": k, "round": round_}, {"case": case, "observed": got3[k], "expected": exp3})
                    if round_ == 2:
                        cur = MergeCoAuthors(allow_inplace_modification=inplace).transform(cur)
            except Exception as ex:
                acc.exception(ex, {"middleware": s, "inplace": inplace}, "SeparateCoAuthors/MergeCoAuthors")


class Loud(str):
    """A str subclass whose str() and format() are not its text (like a str-Enum member's)."""

    def __str__(self):
        return "<<" + str.__str__(self) + ">>"

    def __format__(self, spec):
        return format(str(self), spec)


def check_value_kinds(acc):
    """Values that are strings without being exactly str: split as the text they are."""
    from ..subtypes import SE, S

    texts = CATALOGUE[:8] + [a + sep + b for a in CATALOGUE[:4] for b in CATALOGUE[:4] for sep in SEPS[:2]]
    for s in texts:
        for kind, v in (("str subclass", S(s)), ("str subclass with its own __str__", Loud(s))):
            case = {"value_kind": kind, "text": s}
            acc.trace()
            acc.case(nontrivial_key=("kind", kind, s))
            try:
                got = split_multiple_persons_names(v)
                e = SeparateCoAuthors(allow_inplace_modification=False).transform(Library([Entry("a", "k", [Field("author", v), Field("title", v)])])).blocks[0]
                got_mw = [f.value for f in e.fields]
            except Exception as ex:
                acc.exception(ex, case, "split of a str-subclass value")
                continue
            exp = R.split_coauthors(s)
            if got != exp or got_mw[0] != exp or got_mw[1] != s or type(got_mw[1]) is not type(v):
                acc.violation({"oracle": "separator_rule", "direction": "value of a str subclass"}, {"case": case, "observed": [got, repr(got_mw)[:200]], "expected": exp})
    for member, exp in ((SE.AUTHORS, ["Ada Lovelace", "Alan Turing"]), (SE.TITLE, ["title"])):
        case = {"value_kind": "str-Enum member", "text": member.value}
        acc.trace()
        acc.case(nontrivial_key=("kind", "enum", member.value))
        try:
            got = split_multiple_persons_names(member)
            e = SeparateCoAuthors().transform(Library([Entry("a", "k", [Field("author", member)])])).blocks[0]
            back = MergeCoAuthors().transform(Library([Entry("a", "k", [Field("author", [member, Loud("X Y")])])])).blocks[0]
        except Exception as ex:
            acc.exception(ex, case, "split of a str-Enum value")
            continue
        if got != exp or e.fields[0].value != exp or back.fields[0].value != member.value + " and X Y":
            acc.violation({"oracle": "separator_rule", "direction": "value of a str subclass"}, {"case": case, "observed": [got, e.fields[0].value, back.fields[0].value], "expected": exp})


def check_after_sibling_calls(acc, tier):
    """History: the name parser (which treats the tie '~' as a blank inside one name) has run before the co-author splitter
    (for which '~' is an ordinary character) - every string over {A, ~, and, blank, tab} up to 6 (7) tokens."""
    from bibtexparser.middlewares.names import parse_single_name_into_parts

    for warm in ("Jean~Paul de~la Sartre, Jr, X", "A~B"):
        try:
            parse_single_name_into_parts(warm)
            SplitNameParts().transform(Library([Entry("a", "k", [Field("author", [warm])])]))
        except Exception as ex:
            acc.exception(ex, {"after_sibling_calls": warm}, "parse_single_name_into_parts")
    toks = ["A", "~", "and", " ", "\t"]
    for n in range(1, (6 if tier == "quick" else 7) + 1):
        for seq in itertools.product(toks, repeat=n):
            if "~" not in seq:
                continue
            acc.count("strings_after_the_name_parser_ran")
            check_string("".join(seq), acc)


def run_shard(shard, tier, acc):
    kind = shard[0]
    if kind == "seq":
        for toks in seq_iter(SIGMA, shard[1]):
            check_string("".join(toks), acc)
    elif kind == "core":
        for toks in seq_iter(SIGMA_CORE, shard[1]):
            check_string("".join(toks), acc)
    elif kind == "lists":
        first = CATALOGUE[shard[1]]
        maxn = 3 if tier == "quick" else 4
        for n in range(1, maxn + 1):
            for rest in itertools.product(CATALOGUE, repeat=n - 1):
                names = (first,) + rest
                for sep in SEPS:
                    s = sep.join(names)
                    acc.count("catalogue_lists")
                    check_string(s, acc)
    elif kind == "midlists":
        # lists of middling length: 4..6 (thorough ..7) persons over a five-name sub-catalogue (plain, comma form, a braced
        # ' and ', a name that is the word 'and', an escape at the end), three separator spellings mixed within one list
        sub = [CATALOGUE[0], CATALOGUE[1], CATALOGUE[2], CATALOGUE[5], CATALOGUE[9]]
        first = sub[shard[1]]
        for n in range(4, (7 if tier == "quick" else 8)):
            for rest in itertools.product(sub, repeat=n - 1):
                names = (first,) + rest
                for variant in range(3):
                    s = names[0]
                    for k, nm in enumerate(names[1:]):
                        s += SEPS[(k * (variant + 1) + variant) % 3] + nm
                    acc.count("mid_lists")
                    check_string(s, acc)
    elif kind == "depth":
        # nesting depth / long lists: a group nested d deep at every position of a list of n names
        # (also far deeper than any recursion limit: 1500 and 5000 levels)
        for d in (1500, 5000):
            grp = "{" * d + "a and b" + "}" * d
            for sep in SEPS[:2]:
                acc.count("depth_strings")
                check_string("N, M." + sep + grp + " C" + sep + "O, P.", acc)
        for d in range(0, 8):
            grp = "{" * d + "a and b" + "}" * d
            for n in (1, 2, 3, 5, 9):
                for pos in range(n):
                    for sep in SEPS[:3]:
                        names = ["N%d, M." % i for i in range(n)]
                        names[pos] = grp + (" C" if d else "")
                        acc.count("depth_strings")
                        check_string(sep.join(names), acc)
        # every catalogue name and two groups with an escaped brace before a braced ' and ', embedded at the start, in the
        # middle and at the end of long regular lists (thresholds on the length of the whole text)
        rare = CATALOGUE + ["{Curly \\} Brace and Sons}", "{a \\{ and b} C", "x\\ and y"]
        for n in (3, 30, 300, 1000):
            regular = ["Last%d, First%d" % (i, i) for i in range(n)]
            for r in rare:
                for pos in (0, n // 2, n):
                    acc.count("rare_in_long_lists")
                    check_string(" and ".join(regular[:pos] + [r] + regular[pos:]), acc)
        for n in (10, 100, 1000):
            check_string(" and ".join("Last%d, First%d" % (i, i) for i in range(n)), acc)
            check_string(" and ".join("{Inst %d and Co}" % i for i in range(n)), acc)
    elif kind == "mw":
        check_middleware(acc)
        check_value_kinds(acc)
    elif kind == "aftersiblings":
        check_after_sibling_calls(acc, tier)
    elif kind == "ball":
        for toks in spaces.ball_iter(BASES[shard[1]], SIGMA, shard):
            acc.count("deviation_strings")
            check_string("".join(toks), acc)


def replay(case, acc):
    if "value_kind" in case:
        check_value_kinds(acc)
    elif "string" in case:
        if "~" in case["string"]:
            check_after_sibling_calls(acc, "quick")  # (the history this string was found under, if it was that family)
        check_string(case["string"], acc, case)
    else:
        check_middleware(acc)


def unit_test(case):
    if "string" not in case:
        return "# middleware route, see witness\n"
    return (
        "from bibtexparser.middlewares.names import split_multiple_persons_names as split\n"
        f"s = {case['string']!r}\n"
        "pieces = split(s)\n"
        "print(pieces)\n"
        "assert split(' and '.join(pieces)) == pieces\n"
        "# expected pieces are stored under witness.expected in this file\n"
    )


def ENV_SHARDS(tier):
    """The broad, cheap families: run again in a fresh interpreter per environment (engine.run_environments)."""
    return [s for s in shards('quick') if s[0] in ("lists", "mw", "aftersiblings") or (s[0] == "seq" and s[1][0] <= 2)]

