"""C19 — an entry behaves like an insertion-ordered mapping of its fields; equality is structural."""
import copy
import itertools

import bibtexparser
from bibtexparser.model import (
    Block,
    Entry,
    ExplicitComment,
    Field,
    ImplicitComment,
    ParsingFailedBlock,
    Preamble,
    String,
)

from .. import bigdocs, engine
from ..canon import canon

ID = "C19"
RULE = (
    "(a) breadth-first closure of the state graph of real Entry objects under set_field, item assignment, pop (with/without "
    "default), item deletion over keys {a, A, b} x values {1, 2}, from the empty entry and from 3 parsed entries, with every read "
    "accessor (get, in, [], items, fields_dict, fields, ENTRYTYPE/ID) evaluated in every state against a plain dict; plus every "
    "history of mutating and reading operations up to the depth bound without deduplication. (b) for every block and field of 8 "
    "parsed documents: every single-attribute perturbation must compare unequal both ways, copy/deepcopy equal both ways. "
    "Non-trivial = (state, op) pairs whose op changes the state, and perturbation pairs (distinct)."
)
ASSUMPTIONS = [
    "pop(k) maps to dict.pop(k, None) and `del e[k]` to dict.pop(k, None) as documented by Entry (exception parity for deleting an absent key is not part of C19)",
    "field keys are distinct and not ENTRYTYPE/ID, as the property states",
]
STATIC_SAMPLES = [["set a 1", "set b 2", "pop a", "e[b]=1"]]

KEYS = ["a", "A", "TYPE"]  # TYPE: a substring of the reserved name ENTRYTYPE, but not reserved
VALS = [1, 2]
DFLT = "<default>"

MUT = (
    [("set_field", k, v) for k in KEYS for v in VALS]
    + [("setitem", k, v) for k in KEYS for v in VALS]
    + [("pop", k) for k in KEYS]
    + [("popd", k) for k in KEYS]
    + [("del", k) for k in KEYS]
)
READS = (
    [("get", k) for k in KEYS + ["zz"]]
    + [("getd", k) for k in KEYS]
    + [("in", k) for k in KEYS]
    + [("getitem", k) for k in KEYS]
    + [("items",), ("fields_dict",), ("type",), ("id",)]
)

PARSED = [
    "@x{k1, a = {va}, c = {vc}, b = {vb}}",
    '@y{k2, title = "T", A = {x}}',
    "@z{k3}",
    # an entry that went through the shipped entry middlewares (what they leave in its metadata is there): keys normalised,
    # month converted, fields sorted by a custom order and then alphabetically
    "@w{k4, TYPE = {vt}, c = {vc}, month = jan, b = {vb}}",
    # ... and one whose last pass was the custom order
    "@v{k5, c = {vc}, b = {vb}, d = {vd}}",
]


def _processing_stack(n):
    from bibtexparser import middlewares as mw

    if n == 4:
        return [mw.NormalizeFieldKeys(), mw.MonthIntMiddleware(), mw.SortFieldsCustomMiddleware(order=("c", "b")), mw.SortFieldsAlphabeticallyMiddleware()]
    if n == 5:
        return [mw.SortFieldsAlphabeticallyMiddleware(), mw.SortFieldsCustomMiddleware(order=("d", "c"))]
    return []


def bounds(tier):
    return {
        "keys": KEYS,
        "values": VALS,
        "mutating_ops": len(MUT),
        "read_ops": len(READS),
        "no_dedup_depth": 3 if tier == "quick" else 4,
        "initial_entries": ["empty"] + PARSED,
        "equality_documents": len(EQ_DOCS),
    }


class SetupFailed(Exception):
    """Parsing one of the fixed, well-formed starting documents failed or gave something else than before: operations on
    earlier entries have leaked into a later parse (entries are not independent mappings)."""


_EXPECTED_INITIAL = {1: [("a", "va"), ("c", "vc"), ("b", "vb")], 2: [("title", "T"), ("A", "x")], 3: [], 4: [("b", "vb"), ("c", "vc"), ("month", 1), ("type", "vt")], 5: [("d", "vd"), ("c", "vc"), ("b", "vb")]}


def fresh(init):
    if init == 0:
        e = Entry("article", "k", [])
    else:
        try:
            e = bibtexparser.parse_string(PARSED[init - 1], append_middleware=_processing_stack(init)).entries[0]
            got = [(f.key, f.value) for f in e.fields]
        except Exception as ex:
            raise SetupFailed(f"parse_string({PARSED[init - 1]!r}) raised {type(ex).__name__}: {ex}")
        if got != _EXPECTED_INITIAL[init]:
            raise SetupFailed(f"parse_string({PARSED[init - 1]!r}) gave fields {got!r}")
    d = {f.key: f.value for f in e.fields}
    return e, d


def fv(x):
    if isinstance(x, Field):
        return ("Field", x.key, canon(x.value))
    return ("other", canon(x))


def do(e, d, op):
    """Apply op to the real entry and to the dict; return (impl_result, ref_result) as comparable values."""

    def run(f):
        try:
            return ("ok", f())
        except KeyError:
            return ("KeyError",)
        except Exception as ex:  # noqa
            return ("raised", type(ex).__name__)

    k = op[1] if len(op) > 1 else None
    kind = op[0]
    if kind == "set_field":
        r = run(lambda: e.set_field(Field(k, op[2])))
        m = run(lambda: d.__setitem__(k, op[2]))
    elif kind == "setitem":
        r = run(lambda: e.__setitem__(k, op[2]))
        m = run(lambda: d.__setitem__(k, op[2]))
    elif kind == "pop":
        r = run(lambda: fv(e.pop(k)))
        m = run(lambda: (lambda v: ("other", canon(None)) if v is _MISSING else ("Field", k, canon(v)))(d.pop(k, _MISSING)))
    elif kind == "popd":
        r = run(lambda: fv(e.pop(k, DFLT)))
        m = run(lambda: (lambda v: ("other", canon(DFLT)) if v is _MISSING else ("Field", k, canon(v)))(d.pop(k, _MISSING)))
    elif kind == "popself":
        # the default handed to pop is the very Field object stored under the key (or under a neighbouring key)
        dflt = e.get(op[2]) if len(op) > 2 else e.get(k)
        r = run(lambda: fv(e.pop(k, dflt)))
        m = run(lambda: (lambda v: fv(dflt) if v is _MISSING else ("Field", k, canon(v)))(d.pop(k, _MISSING)))
    elif kind == "del":
        r = run(lambda: e.__delitem__(k))
        m = run(lambda: d.pop(k, None) and None)
    elif kind == "get":
        r = run(lambda: fv(e.get(k)))
        m = run(lambda: ("Field", k, canon(d[k])) if k in d else ("other", canon(None)))
    elif kind == "getd":
        r = run(lambda: fv(e.get(k, DFLT)))
        m = run(lambda: ("Field", k, canon(d[k])) if k in d else ("other", canon(DFLT)))
    elif kind == "in":
        r = run(lambda: k in e)
        m = run(lambda: k in d)
    elif kind == "getitem":
        r = run(lambda: canon(e[k]))
        m = run(lambda: canon(d[k]))
    elif kind == "items":
        r = run(lambda: [(a, canon(b)) for a, b in e.items()])
        m = run(lambda: [("ENTRYTYPE", canon(e.entry_type)), ("ID", canon(e.key))] + [(a, canon(b)) for a, b in d.items()])
    elif kind == "fields_dict":
        r = run(lambda: [(a, fv(b)) for a, b in e.fields_dict.items()])
        m = run(lambda: [(a, ("Field", a, canon(b))) for a, b in d.items()])
    elif kind == "type":
        r = run(lambda: e["ENTRYTYPE"])
        m = ("ok", e.entry_type)
    elif kind == "id":
        r = run(lambda: e["ID"])
        m = ("ok", e.key)
    else:
        raise AssertionError(op)
    if kind in ("set_field", "setitem", "del"):
        # no result to compare; only whether it went through
        r = (r[0],) if r[0] != "ok" else ("ok",)
        m = ("ok",)
    return r, m


_MISSING = object()


def order_ok(e, d):
    return [(f.key, canon(f.value)) for f in e.fields] == [(k, canon(v)) for k, v in d.items()]


def identity_ok(e, op):
    """Like a dict, the entry stores the objects it is given and hands those very objects out (a caller may edit them)."""
    fs = e.fields
    fd = e.fields_dict
    if len(fd) != len(fs):
        return True  # duplicate keys: outside the property
    for f in fs:
        if fd.get(f.key) is not f or e.get(f.key) is not f:
            return False
    if op[0] in ("setitem", "set_field") and fs:
        k = fs[0].key
        old = e.get(k)
        old_state = (old.key, canon(old.value), old.start_line)
        keep = old.value
        e[k] = "<assigned later>"
        replaced = e.get(k) is not old and (old.key, canon(old.value), old.start_line) == old_state
        e.set_field(old)  # put the stored object back: state as before
        if not replaced or e.get(k) is not old or old.value is not keep:
            return False
    if op[0] == "set_field" and fs:
        probe = Field("zz_identity", "v")
        e.set_field(probe)
        ok = e.fields[-1] is probe and e.get("zz_identity") is probe
        back = e.pop("zz_identity")
        if not ok or back is not probe:
            return False
    return True


def state_of(e):
    return canon(e)


def replay_hist(hist):
    e, d = fresh(hist[0])
    for op in hist[1:]:
        do(e, d, tuple(op))
    return e, d


def step(hist, op, acc, observe=True):
    """Execute hist then op on fresh objects with all oracles on the last step. Returns (entry, dict, ok)."""
    try:
        e, d = replay_hist(hist)
    except SetupFailed as sf:
        acc.violation(
            {"oracle": "entries_are_independent", "where": "later parse"},
            {"case": {"history": hist, "op": list(op)}, "observed": str(sf), "expected": "the fields the document states"},
            size=len(hist),
        )
        e, d = Entry("article", "k", []), {}
        return e, d, False
    case = {"history": hist, "op": list(op)}
    r, m = do(e, d, op)
    ok = True
    if r != m:
        acc.violation(
            {"oracle": "result_equals_dict", "op": op[0]},
            {"case": case, "observed": repr(r), "expected": repr(m)},
            size=len(hist),
        )
        ok = False
    if ok and not identity_ok(e, op):
        acc.violation(
            {"oracle": "same_field_objects", "op": op[0]},
            {"case": case, "observed": "fields / fields_dict / get / pop hand out different objects for one field", "expected": "one Field object per field, the one that was stored"},
            size=len(hist),
        )
        ok = False
    if not order_ok(e, d):
        acc.violation(
            {"oracle": "field_order_equals_dict", "op": op[0]},
            {"case": case, "observed": [(f.key, f.value) for f in e.fields], "expected": list(d.items())},
            size=len(hist),
        )
        ok = False
    if ok and observe:
        before = state_of(e)
        for rd in READS:
            r2, m2 = do(e, d, rd)
            if r2 != m2:
                acc.violation(
                    {"oracle": "read_equals_dict", "read": rd[0], "after": op[0]},
                    {"case": {"history": hist + [list(op)], "op": list(rd)}, "observed": repr(r2), "expected": repr(m2)},
                    size=len(hist) + 1,
                )
                ok = False
                break
        if ok and (state_of(e) != before or not order_ok(e, d)):
            acc.violation(
                {"oracle": "reads_do_not_change_state", "after": op[0]},
                {"case": case, "observed": [(f.key, f.value) for f in e.fields], "expected": list(d.items())},
                size=len(hist),
            )
            ok = False
    return e, d, ok


def initial(tier, acc):
    out = []
    for i in range(len(PARSED) + 1):
        try:
            e, d = fresh(i)
        except SetupFailed as sf:
            acc.violation({"oracle": "entries_are_independent", "where": "later parse"}, {"case": {"history": [i], "op": None}, "observed": str(sf), "expected": "the fields the document states"})
            continue
        if not order_ok(e, d):
            acc.harness_error("initial entry disagrees with its own fields")
        out.append((engine.h(state_of(e)), [i]))
    return out


def expand(hist, tier, acc):
    try:
        e0, _ = replay_hist(hist)
    except SetupFailed as sf:
        acc.violation({"oracle": "entries_are_independent", "where": "later parse"}, {"case": {"history": hist, "op": None}, "observed": str(sf), "expected": "the fields the document states"}, size=len(hist))
        return
    k0 = engine.h(state_of(e0))
    acc.states.add(k0)
    for op in MUT:
        e, d, ok = step(hist, op, acc)
        acc.trace()
        acc.case(sample=lambda: {"history": hist, "op": list(op), "fields_after": [(f.key, f.value) for f in e.fields]})
        k1 = engine.h(state_of(e))
        acc.states.add(k1)
        acc.transitions.add(engine.h((k0, op, k1)))
        acc.outcome(k1)
        if k1 != k0:
            acc.nontrivial.add(engine.h((k0, op)))
        if ok:
            yield k1, hist + [list(op)]


def explore(tier, seed, acc, procs):
    seen = engine.bfs(__name__, tier, seed, acc, procs)
    acc.counters["closed_graph_states"] = len(seen)


# -- no-dedup histories and the equality clause as shards ---------------------------------------------
ALLOPS = MUT + READS


def shards(tier):
    out = [("hist", init, i) for init in range(len(PARSED) + 1) for i in range(len(ALLOPS))]
    out += [("eq", i) for i in range(len(EQ_DOCS))]
    out += [("bigeq", n) for n in (bigdocs.SIZES_QUICK if tier == "quick" else bigdocs.SIZES_THOROUGH)]
    out += [("isolation", 0), ("oddkeys", 0), ("eqvalues", 0), ("wide", 0), ("fieldobjects", 0)]
    return out


def run_shard(shard, tier, acc):
    if shard[0] == "hist":
        _, init, i = shard
        depth = 3 if tier == "quick" else 4

        def rec(hist, d):
            for op in ALLOPS:
                if d == depth - 1 and op in READS:
                    # a trailing read is already checked after every mutation by `observe`
                    continue
                e, dd, ok = step(hist, op, acc, observe=(d == depth - 1))
                acc.trace()
                acc.case()
                acc.count("nodedup_histories")
                if ok and d + 1 < depth:
                    rec(hist + [list(op)], d + 1)

        op1 = ALLOPS[i]
        e, dd, ok = step([init], op1, acc, observe=False)
        acc.trace()
        acc.case()
        if ok:
            rec([init, list(op1)], 1)
    elif shard[0] == "bigeq":
        big_equality(shard[1], acc)
    elif shard[0] == "isolation":
        isolation(acc)
    elif shard[0] == "oddkeys":
        odd_keys(acc)
    elif shard[0] == "eqvalues":
        equality_in_flight(acc)
        equal_values(acc)
    elif shard[0] == "wide":
        wide_entries(acc, tier)
    elif shard[0] == "fieldobjects":
        field_objects(acc)
    else:
        equality_shard(shard[1], acc)


def isolation(acc):
    """Entries parsed from one document (in every syntactic form: no comma, trailing comma, no fields, one field) and in
    later parses are independent mappings: operations on one never show in another."""
    doc = "@m{a}\n@m{b}\n@m{c,}\n@m{d, x = {1}}\n@m{e, x = {1},}\n@m{f}\n"
    for stack in ({}, {"parse_stack": []}):
        for victim in range(6):
            for op in MUT:
                lib = bibtexparser.parse_string(doc, **stack)
                ents = lib.entries
                snap = [[(f.key, canon(f.value)) for f in e.fields] for e in ents]
                d = {f.key: f.value for f in ents[victim].fields}
                acc.trace()
                acc.case(nontrivial_key=("isolation", bool(stack), victim, op))
                do(ents[victim], d, op)
                later = bibtexparser.parse_string(doc, **stack).entries
                after = [[(f.key, canon(f.value)) for f in e.fields] for e in ents]
                fresh_ = [[(f.key, canon(f.value)) for f in e.fields] for e in later]
                case = {"isolation": victim, "op": list(op), "stack": sorted(stack)}
                for i in range(6):
                    if i != victim and after[i] != snap[i]:
                        acc.violation({"oracle": "entries_are_independent", "where": "same document"}, {"case": case, "observed": after[i], "expected": snap[i], "entry": i})
                        break
                else:
                    if fresh_ != snap:
                        acc.violation({"oracle": "entries_are_independent", "where": "later parse"}, {"case": case, "observed": fresh_, "expected": snap})


def equality_in_flight(acc):
    """Two comparisons in flight: while `a == b` is comparing a field value, that value's own __eq__ asks the same question
    about the same two blocks again (inline, or in a second thread it waits for) - and gets the same, structural answer:
    for entries / strings / preambles / comments / fields that differ in something compared AFTER the value, and for equal ones."""
    import threading

    class Asking:
        """A user value that is equal to its twin; its first comparison makes a second comparison of the two blocks."""

        def __init__(self, box):
            self.box = box

        def __eq__(self, other):
            b = self.box
            if isinstance(other, Asking) and b.get("ask") is not None:
                ask, b["ask"] = b["ask"], None
                if b["threaded"]:
                    t = threading.Thread(target=lambda: b["answers"].append(ask()))
                    t.start()
                    t.join()
                else:
                    b["answers"].append(ask())
            return isinstance(other, Asking)

        __hash__ = None

    def pairs(box):
        v = lambda: Asking(box)
        yield "entries differing in a later field", Entry("a", "k", [Field("t", v()), Field("year", "1999")]), Entry("a", "k", [Field("t", v()), Field("year", "2000")]), False
        yield "equal entries", Entry("a", "k", [Field("t", v()), Field("year", "1999")]), Entry("a", "k", [Field("t", v()), Field("year", "1999")]), True
        yield "fields differing in the start line", Field("t", v(), 1), Field("t", v(), 2), False
        yield "equal fields", Field("t", v(), 1), Field("t", v(), 1), True
        yield "strings differing in raw", String("s", v(), 3, "raw1"), String("s", v(), 3, "raw2"), False
        yield "equal strings", String("s", v(), 3, "raw"), String("s", v(), 3, "raw"), True

    for threaded in (False, True):
        for neg in (False, True):
            box = {"threaded": threaded, "answers": [], "ask": None}
            for label, a, b, same in pairs(box):
                box["answers"] = []
                box["ask"] = (lambda a=a, b=b: (a != b)) if neg else (lambda a=a, b=b: (a == b))
                case = {"equality_in_flight": label, "in_another_thread": threaded, "inner_question": "!=" if neg else "=="}
                acc.trace(2)
                acc.case(nontrivial_key=("eq-in-flight", label, threaded, neg))
                try:
                    outer = a == b
                except Exception as ex:
                    acc.exception(ex, case, "== with a comparison in flight")
                    continue
                inner = box["answers"][0] if box["answers"] else None
                want_inner = (not same) if neg else same
                if outer is not same or (inner is not None and inner is not want_inner):
                    acc.violation({"oracle": "equality_is_structural", "what": "a comparison in flight", "which": "outer" if outer is not same else "inner"}, {"case": case, "observed": [outer, inner], "expected": [same, want_inner]})


def equal_values(acc):
    """Assigning a value that compares equal to the stored one (True over 1, 1.0 over 1, an instance of a str subclass
    over the equal str, an equal but distinct Field) still stores the NEW object, like d[k] = v does."""
    from ..subtypes import I, S

    groups = [[1, True, 1.0, I(1)], [0, False, 0.0], ["x", S("x")], [(1,), (True,)], ["", S("")]]
    for g in groups:
        for v1, v2 in itertools.permutations(g, 2):
            for pos in range(3):
                for how in ("setitem", "set_field"):
                    keys = ["p", "q", "r"]
                    e = Entry("article", "k", [Field(k, "other " + k) for k in keys])
                    k = keys[pos]
                    case = {"equal_values": [repr(v1), repr(v2)], "types": [type(v1).__name__, type(v2).__name__], "position": pos, "how": how}
                    acc.trace()
                    acc.case(nontrivial_key=("eqv", repr(v1), type(v1).__name__, repr(v2), type(v2).__name__, pos, how))
                    try:
                        e[k] = v1
                        f2 = Field(k, v2)
                        if how == "setitem":
                            e[k] = v2
                        else:
                            e.set_field(f2)
                        got = e[k]
                        ok = got is v2 and [f.key for f in e.fields] == keys and e.fields_dict[k].value is v2 and dict(e.items())[k] is v2
                        if ok and how == "set_field":
                            f2.value = "edited later"
                            ok = e.get(k) is f2 and e[k] == "edited later"
                    except Exception as ex:
                        acc.exception(ex, case, "assignment of an equal value")
                        continue
                    acc.step(("eqv", repr(v1), repr(v2)), how, repr(got))
                    if not ok:
                        acc.violation(
                            {"oracle": "assignment_stores_the_new_object", "how": how},
                            {"case": case, "observed": [repr(got), type(got).__name__], "expected": [repr(v2), type(v2).__name__]},
                        )


def wide_entries(acc, tier):
    """Entries of middling width (1 .. 20 fields, thorough .. 40, and around 32 .. 256, thorough .. 1024): every single operation at every position of every
    width, then a second one at every position - replacing keeps the position whichever field it is (first, middle,
    last), removal closes the gap, a default handed to pop is only a default."""
    top = 20 if tier == "quick" else 40
    # ... and the widths around the powers of two a lookup structure would switch at, at the positions around those
    # thresholds and at both ends
    ladder = [31, 32, 33, 34, 63, 64, 65, 66, 127, 128, 129, 130, 255, 256, 257, 258] + ([1023, 1024, 1025, 1026] if tier == "thorough" else [])
    near = sorted({0, 1, 2} | {q + dlt for q in (8, 16, 32, 64, 128, 256, 1024) for dlt in (-2, -1, 0, 1, 2)})
    for n in list(range(1, top + 1)) + [w for w in ladder if w > top]:
        keys = [f"k{i:02d}" for i in range(n)]
        for p in range(n) if n <= top else sorted({x for x in near if x < n} | {n - 2, n - 1}):
            k = keys[p]
            firsts = [("setitem", k, "new"), ("set_field", k, "new"), ("pop", k), ("popd", k), ("popself", k), ("popself", k, keys[(p + 1) % n]), ("del", k), ("setitem", "fresh", "f")]
            for op1 in firsts:
                e = Entry("article", "key", [Field(x, f"v{i}", start_line=i) for i, x in enumerate(keys)])
                d = {x: f"v{i}" for i, x in enumerate(keys)}
                hist = []
                q = (p * 7 + 3) % n
                seconds = [("getitem", keys[q]), ("set_field", keys[q], "second"), ("in", k), ("get", k), ("items",), ("fields_dict",), ("setitem", k, "again"), ("pop", keys[q])]
                for op in [op1] + seconds:
                    acc.trace()
                    acc.case(nontrivial_key=("wide", n, p, op1, len(hist)))
                    r, m = do(e, d, op)
                    hist.append(list(op))
                    if r != m or not order_ok(e, d) or len(e.fields) != len(d) or [f.key for f in e.fields] != list(e.fields_dict):
                        acc.violation(
                            {"oracle": "result_equals_dict", "op": op[0], "key_kind": "entry of middling width", "position": "first" if p == 0 else ("last" if p == n - 1 else ("middle" if 2 * p + 1 == n else "inner"))},
                            {"case": {"wide_entry": n, "position": p, "ops": hist}, "observed": [repr(r), [f.key for f in e.fields]], "expected": [repr(m), list(d)]},
                            size=n,
                        )
                        break


class UserField(Field):
    """A user's subclass of Field."""


def field_objects(acc):
    """(a) A Field and an instance of a Field subclass with the same content are different classes: == is False and !=
    is True, both ways (and != is the negation of == for every pair).  (b) A Field object assigned as a VALUE (e[k] = f)
    is a value like any other: the mapping hands that very object back, under the same key or another."""
    pairs = [
        (Field("k", "v", 3), UserField("k", "v", 3), False),
        (UserField("k", "v", 3), UserField("k", "v", 3), True),
        (Field("k", "v", 3), Field("k", "v", 3), True),
        (Field("k", "v", 3), Field("k", "v", 4), False),
        (Field("k", "v", 3), "k", False),
        (Field("k", "v", 3), None, False),
    ]
    for a, b, same in pairs:
        for x, y in ((a, b), (b, a)):
            acc.trace()
            acc.case(nontrivial_key=("field-eq", repr(type(x).__name__), repr(type(y).__name__), same))
            try:
                eq, ne = (x == y), (x != y)
            except Exception as ex:
                acc.exception(ex, {"field_objects": [type(x).__name__, type(y).__name__]}, "comparison of fields")
                continue
            if eq is not same or ne is not (not same):
                acc.violation(
                    {"oracle": "different_classes_compare_unequal" if not same else "equal_content_compares_equal", "classes": [type(x).__name__, type(y).__name__], "operator": "==" if eq is not same else "!="},
                    {"case": {"field_objects": [type(x).__name__, type(y).__name__]}, "observed": [eq, ne], "expected": [same, not same]},
                )
    # a block or field on the left of == / != with an object that claims to equal everything: not the same class
    from ..subtypes import Anything

    probes = [Field("k", "v", 3), Entry("a", "k", [Field("f", "v")]), String("s", "v"), Preamble("p"), ExplicitComment("c"), ImplicitComment("c")]
    for x in probes:
        acc.trace()
        acc.case(nontrivial_key=("wildcard", type(x).__name__))
        try:
            eq, ne = (x == Anything()), (x != Anything())
        except Exception as ex:
            acc.exception(ex, {"field_objects": [type(x).__name__, "Anything"]}, "comparison with a wildcard object")
            continue
        if eq is not False or ne is not True:
            acc.violation({"oracle": "different_classes_compare_unequal", "classes": [type(x).__name__, "Anything"], "operator": "==" if eq is not False else "!="}, {"case": {"field_objects": [type(x).__name__, "Anything"]}, "observed": [eq, ne], "expected": [False, True]})

    class LowerKeyField(Field):
        """A user's Field whose key reads lower-cased (the stored text keeps its case)."""

        @property
        def key(self):
            return self._key.lower()

        @key.setter
        def key(self, v):
            self._key = v

    for op in ("pop", "del", "set_field", "setitem"):
        e = Entry("article", "k", [LowerKeyField("Title", "T", 1), Field("year", "1999", 2)])
        d = {"title": "T", "year": "1999"}
        acc.trace()
        acc.case(nontrivial_key=("lowerkeyfield", op))
        try:
            r, m = do(e, d, {"pop": ("pop", "title"), "del": ("del", "title"), "set_field": ("set_field", "title", "N"), "setitem": ("setitem", "title", "N")}[op])
        except Exception as ex:
            acc.exception(ex, {"field_objects": ["LowerKeyField", op]}, "operation on a field whose key property is overridden")
            continue
        if r != m or not order_ok(e, d):
            acc.violation({"oracle": "result_equals_dict", "op": op, "key_kind": "a Field subclass that overrides key"}, {"case": {"field_objects": ["LowerKeyField", op]}, "observed": [repr(r), [f.key for f in e.fields]], "expected": [repr(m), list(d)]})
    for target in ("t", "other", "fresh"):
        e = Entry("article", "k", [Field("t", "T", 1), Field("other", "O", 2)])
        d = {"t": "T", "other": "O"}
        f = e.get("t")
        acc.trace()
        acc.case(nontrivial_key=("field-as-value", target))
        try:
            e[target] = f
            d[target] = f
            got = e[target]
        except Exception as ex:
            acc.exception(ex, {"field_as_value": target}, "assignment of a Field object as a value")
            continue
        if got is not f or [k for k, _ in e.items()][2:] != list(d) or not order_ok(e, d):
            acc.violation(
                {"oracle": "assignment_stores_the_new_object", "how": "a Field object as the value"},
                {"case": {"field_as_value": target}, "observed": repr(got)[:100], "expected": "the very Field object assigned, as d[k] = f gives"},
            )


def odd_keys(acc):
    """Field keys that merely resemble the reserved names (substrings, other case, empty) are ordinary keys."""
    odd = ["TYPE", "ENTRY", "I", "D", "", "Id", "entrytype", "ENTRYTYPE ", "ID2", "type", "%", "%s", "100%", "{0}", "{}", "a}", "k.d+", "\\1", "a|b"]
    for k in odd:
        for other, (etype, ekey) in (("title", ("techreport", "key1")), ("ID2", ("techreport", "key1")), ("title", ("", "")), ("ID", ("0", "0"))):
            e = Entry(etype, ekey, [])
            d = {}
            ops = [("set_field", k, "v1"), ("getitem", k), ("in", k), ("get", k), ("setitem", other, "o"), ("getitem", k), ("items",), ("fields_dict",), ("type",), ("id",), ("pop", k), ("getitem", k), ("in", k), ("popd", k), ("get", k), ("del", k), ("del", other), ("type",), ("id",)]
            if other == "ID":
                ops = [op for op in ops if op[0] not in ("setitem", "del") or op[1] != "ID"]  # (reserved names are outside the property)
            hist = []
            for op in ops:
                acc.trace()
                acc.case(nontrivial_key=("odd", k, other, len(hist)))
                r, m = do(e, d, op)
                hist.append(list(op))
                if r != m or not order_ok(e, d):
                    acc.violation(
                        {"oracle": "result_equals_dict", "op": op[0], "key_kind": "resembles a reserved name"},
                        {"case": {"odd_key": k, "ops": hist}, "observed": repr(r), "expected": repr(m)},
                    )
                    break


def big_equality(n, acc):
    """Structurally equal blocks that were built independently (two parses of one document) compare equal, on every
    line of a long document; a copy compares equal; a copy moved by one line does not."""
    text, _ = bigdocs.document(n, 1)
    for stack in ("default", "none"):
        kw = {} if stack == "default" else {"parse_stack": []}
        a = bibtexparser.parse_string(text, **kw).blocks
        b = bibtexparser.parse_string(text, **kw).blocks
        for i, (x, y) in enumerate(zip(a, b)):
            if isinstance(x, ParsingFailedBlock):
                continue
            acc.trace()
            acc.case(nontrivial_key=("bigeq", n, stack, i))
            case = {"big_equality": n, "stack": stack, "block": i, "start_line": x.start_line}
            objs = [(x, y)] + ([(f, g) for f, g in zip(x.fields, y.fields)] if isinstance(x, Entry) else [])
            for p, q in objs:
                r = eq_both(p, q)
                acc.step(("bigobj", n, stack, i), "independent-parse", ("eq", r))
                if r != (True, True, False, False):
                    acc.violation(
                        {"oracle": "equal_content_compares_equal", "class": type(p).__name__, "how": "independent parse"},
                        {"case": case, "observed": r, "expected": "== both ways"},
                        size=n,
                    )
                    return
                c = copy.deepcopy(p)
                _ = getattr(c, "parser_metadata", None)  # reading an accessor must not change equality
                _ = getattr(c, "fields_dict", None)
                r = eq_both(p, c)
                if r != (True, True, False, False):
                    acc.violation(
                        {"oracle": "copies_compare_equal", "class": type(p).__name__, "how": "deepcopy+read accessors"},
                        {"case": case, "observed": r, "expected": "== both ways"},
                        size=n,
                    )
                    return
                if isinstance(p, Block):
                    c._start_line_in_file = (p.start_line or 0) + 1
                    r = eq_both(p, c)
                    if r != (False, False, True, True):
                        acc.violation(
                            {"oracle": "perturbed_compare_unequal", "class": type(p).__name__, "attribute": "_start_line_in_file", "kind": "value"},
                            {"case": case, "observed": r, "expected": "!= both ways"},
                            size=n,
                        )
                        return


# -- (b) structural equality ----------------------------------------------------------------------------
EQ_DOCS = [
    "@article{k, title = {T}, year = 1990, note = \"n\"}",
    '@string{s = "v"}\n@book{b, p = s}',
    '@preamble{"pre"}',
    "@comment{explicit}",
    "free text comment",
    "@a{k1, f = {1}}\n% c\n@b{k2, g = {2}, h = {3}}",
    "@misc{m,\n a = {x},\n b = {y}\n}",
    "@string{t = {w}}\n@string{u = t}",
]


def perturbations(obj):
    """Yield (description, mutator) for single-attribute changes of a copy of obj."""
    for name, val in list(vars(obj).items()):
        if isinstance(val, str):
            yield f"{name}+x", lambda o, n=name, v=val: setattr(o, n, v + "x")
            yield f"{name}.case", lambda o, n=name, v=val: setattr(o, n, v.swapcase() if v.swapcase() != v else v + "y")
        elif isinstance(val, bool):
            yield f"{name}.not", lambda o, n=name, v=val: setattr(o, n, not v)
        elif isinstance(val, int):
            yield f"{name}+1", lambda o, n=name, v=val: setattr(o, n, v + 1)
        elif val is None:
            yield f"{name}=0", lambda o, n=name: setattr(o, n, 0)
            yield f"{name}=''", lambda o, n=name: setattr(o, n, "")
        elif isinstance(val, dict):
            yield f"{name}[new]", lambda o, n=name: getattr(o, n).__setitem__("zz_new", 1)
            for k in list(val):
                yield f"{name}.del[{k}]", lambda o, n=name, k=k: getattr(o, n).pop(k)
                yield f"{name}.chg[{k}]", lambda o, n=name, k=k: getattr(o, n).__setitem__(k, ("changed", getattr(o, n)[k]))
        elif isinstance(val, list) and all(isinstance(x, Field) for x in val):
            for i, f in enumerate(val):
                yield f"{name}[{i}].key", lambda o, n=name, i=i: setattr(getattr(o, n)[i], "key", getattr(o, n)[i].key + "x")
                yield f"{name}[{i}].value", lambda o, n=name, i=i: setattr(getattr(o, n)[i], "value", str(getattr(o, n)[i].value) + "x")
                yield f"{name}[{i}].start_line", lambda o, n=name, i=i: setattr(getattr(o, n)[i], "_start_line", (getattr(o, n)[i].start_line or 0) + 1)
            for i in range(len(val) - 1):
                yield f"{name}.swap[{i},{i+1}]", lambda o, n=name, i=i: getattr(o, n).__setitem__(slice(i, i + 2), getattr(o, n)[i : i + 2][::-1])
            if val:
                yield f"{name}.droplast", lambda o, n=name: getattr(o, n).pop()
                yield f"{name}.dropfirst", lambda o, n=name: getattr(o, n).pop(0)
            yield f"{name}.append", lambda o, n=name: getattr(o, n).append(Field("zz_new", "v", 0))


def eq_both(a, b):
    return (a == b, b == a, a != b, b != a)


def equality_shard(i, acc):
    doc = EQ_DOCS[i]
    for stack in ("default", "none"):
        lib = bibtexparser.parse_string(doc) if stack == "default" else bibtexparser.parse_string(doc, parse_stack=[])
        objs = []
        for b in lib.blocks:
            if isinstance(b, ParsingFailedBlock):
                continue
            objs.append(b)
            if isinstance(b, Entry):
                objs.extend(b.fields)
        for n, o in enumerate(objs):
            tname = type(o).__name__
            for how, cp in (("copy", copy.copy), ("deepcopy", copy.deepcopy)):
                c = cp(o)
                acc.trace()
                acc.case(nontrivial_key=("copy", i, stack, n, how))
                r = eq_both(o, c)
                acc.step(("obj", i, stack, n), how, ("eq", r))
                if r != (True, True, False, False):
                    acc.violation(
                        {"oracle": "copies_compare_equal", "class": tname, "how": how},
                        {"case": {"doc": i, "stack": stack, "object": n, "how": how}, "observed": r, "expected": "== both ways"},
                    )
            for desc, mut in perturbations(o):
                c = copy.deepcopy(o)
                try:
                    mut(c)
                except Exception as ex:  # my perturbation did not apply to this object
                    acc.count("perturbation_not_applicable")
                    continue
                if canon(c) == canon(o):
                    acc.count("perturbation_noop")
                    continue
                acc.trace()
                acc.case(sample=lambda: {"doc": doc, "object": tname, "perturbation": desc}, nontrivial_key=("pert", i, stack, n, desc))
                r = eq_both(o, c)
                acc.step(("obj", i, stack, n), "perturb:" + desc, ("eq", r))
                if r != (False, False, True, True):
                    attr = desc.split("[")[0].split(".")[0].split("+")[0].split("=")[0]
                    acc.violation(
                        {"oracle": "perturbed_compare_unequal", "class": tname, "attribute": attr, "kind": desc.split(".")[-1].split("[")[0] if "." in desc else "value"},
                        {"case": {"doc": i, "stack": stack, "object": n, "perturbation": desc}, "observed": r, "expected": "!= both ways"},
                    )
        # cross-class pairs with equal content
        class MyEntry(Entry):
            pass

        pairs = [
            (Entry("a", "k", [Field("f", "v", 1)], 1, "r"), MyEntry("a", "k", [Field("f", "v", 1)], 1, "r")),
            (ImplicitComment("c", 1, "c"), ExplicitComment("c", 1, "c")),
            (Preamble("c", 1, "c"), ExplicitComment("c", 1, "c")),
            (String("k", "v", 1, "r"), Field("k", "v", 1)),
        ]
        for a, b in pairs:
            acc.trace()
            acc.case(nontrivial_key=("cross", type(a).__name__, type(b).__name__))
            r = eq_both(a, b)
            if r != (False, False, True, True):
                acc.violation(
                    {"oracle": "different_classes_compare_unequal", "classes": [type(a).__name__, type(b).__name__]},
                    {"case": {"cross": [type(a).__name__, type(b).__name__]}, "observed": r, "expected": "!= both ways"},
                )


def replay(case, acc):
    if "history" in case:
        step(case["history"], tuple(case["op"]), acc)
    elif "isolation" in case:
        isolation(acc)
    elif "odd_key" in case:
        odd_keys(acc)
    elif "equality_in_flight" in case:
        equality_in_flight(acc)
    elif "equal_values" in case:
        equal_values(acc)
    elif "field_objects" in case or "field_as_value" in case:
        field_objects(acc)
    elif "wide_entry" in case:
        wide_entries(acc, "quick" if case["wide_entry"] <= 13 else "thorough")
    elif "doc" in case:
        equality_shard(case["doc"], acc)
    else:
        equality_shard(0, acc)


def unit_test(case):
    return "# entry history (initial entry index, then operations; see mc/checks/c19.py): " + repr(case) + "\n"


def ENV_SHARDS(tier):
    """The broad, cheap families: run again in a fresh interpreter per environment (engine.run_environments)."""
    return [s for n, s in enumerate(shards('quick')) if s[0] != "hist" or n % 10 == 0]

