"""C20 — entry points apply exactly the requested middleware stack, in order (DESIGN 4/C20)."""
import io
import itertools
import os
import tempfile

import bibtexparser
from bibtexparser import middlewares as mw
from bibtexparser.library import Library
from bibtexparser.middlewares.middleware import BlockMiddleware, LibraryMiddleware
from bibtexparser.model import Entry, ExplicitComment, Field, ImplicitComment, Preamble, String
from bibtexparser.splitter import Splitter
from bibtexparser.writer import BibtexFormat, write

from ..canon import canon

ID = "C20"
RULE = (
    "every stack of 0..2 (quick) / 0..3 (thorough) middlewares over a pool of 3 order-sensitive probe block middlewares, a probe library "
    "middleware, RemoveEnclosing, AddEnclosing and ResolveStringReferences, in each argument position (parse_stack, append_middleware, "
    "unparse_stack, prepend_middleware, write_file's parse_stack / append_middleware), passed as list, tuple and one-shot iterator, x 5 "
    "documents; every entry-point result is compared with the same stack folded by hand over Splitter output / handed to the writer, and "
    "each call is followed by a default call (state left between calls). Plus parse_file x encodings, write_file x targets, the illegal "
    "argument pairs, and block-protocol probes (None, empty, one, several, non-block results) for every block kind. "
    "Non-trivial = non-empty stack or file/protocol case (distinct)."
)
ASSUMPTIONS = [
    "the default stacks are the documented ones: parse = [ResolveStringReferences, RemoveEnclosing] in place, write = [AddEnclosing('{', no reuse, enclose integers)] copying",
    "write_file(path) is decided for the process' default text encoding (read back with the same default)",
]
STATIC_SAMPLES = [{"position": "append_middleware", "stack": ["T1", "RemoveEnclosing", "T2"], "container": "iterator"}]

DOCS = [
    "@article{k, title = {T}, year = 1990}\n",
    '@string{s = "v"}\n@book{b, a = s, c = "x" # s}\n% comment\n',
    '@preamble{"p"}\n@comment{c}\n@misc{m, note = {ü ñ é}}\n',
    "@a{凯, author = {凯撒}, j = {测试期刊}}\n",
    "free text\n@a{k1, f = {1}}\n@a{k1, f = {2}}\n@b{k2, g = {1}, g = {2}}\n@c{broken\n",
    "\xff\xfe text that starts like a byte-order mark when stored as latin-1\n@a{k9, t = {\xfe\xff \xe9}}\n",
    "\ufeff% a document whose first character is U+FEFF (it is content: parse_string keeps it)\n@a{k10, t = {x\ufeffy}}\n",
]
ENCODINGS = {0: ["utf-8", "latin-1", "gbk", "utf-16", "ascii"], 1: ["utf-8", "latin-1", "gbk", "utf-16"], 2: ["utf-8", "latin-1", "utf-16"], 3: ["utf-8", "gbk", "utf-16"], 4: ["utf-8", "utf-16"], 5: ["latin-1", "utf-8", "utf-16", "utf-16-le"], 6: ["utf-8", "utf-16-le", "utf-16-be"]}


class Tag(BlockMiddleware):
    """Order-sensitive probe: appends its tag to every text and to a per-block trace."""

    def __init__(self, tag):
        super().__init__(allow_inplace_modification=True)
        self.tag = tag

    def _t(self, b):
        b.parser_metadata.setdefault("trace", []).append(self.tag)

    def transform_entry(self, entry, library):
        for f in entry.fields:
            if isinstance(f.value, str):
                f.value = f.value + self.tag
        self._t(entry)
        return entry

    def transform_string(self, string, library):
        string.value = string.value + self.tag
        self._t(string)
        return string

    def transform_preamble(self, preamble, library):
        preamble.value = preamble.value + self.tag
        self._t(preamble)
        return preamble

    def transform_explicit_comment(self, c, library):
        c.comment = c.comment + self.tag
        self._t(c)
        return c

    def transform_implicit_comment(self, c, library):
        c.comment = c.comment + self.tag
        self._t(c)
        return c


class LibTag(LibraryMiddleware):
    def __init__(self):
        super().__init__(allow_inplace_modification=True)

    def transform(self, library):
        library.add(ImplicitComment(f"L{len(library.blocks)}"))
        return library


class AddField(BlockMiddleware):
    """In-place probe that gives every entry one more field with a long key (changes what 'auto' alignment must use)."""

    def __init__(self):
        super().__init__(allow_inplace_modification=True)

    def transform_entry(self, entry, library):
        entry.set_field(Field("checked_by_the_librarian_on", "{today}"))
        return entry


POOL = [
    ("AddField", lambda: AddField()),
    ("T1", lambda: Tag("<1>")),
    ("T2", lambda: Tag("<2>")),
    ("T3", lambda: Tag("<3>")),
    ("LibTag", lambda: LibTag()),
    ("RemoveEnclosing", lambda: mw.RemoveEnclosingMiddleware()),
    ("AddEnclosing", lambda: mw.AddEnclosingMiddleware(reuse_previous_enclosing=True, enclose_integers=False, default_enclosing='"')),
    ("ResolveStringReferences", lambda: mw.ResolveStringReferencesMiddleware()),
]
CONTAINERS = {"list": list, "tuple": tuple, "iterator": iter}
def _default_encoding():
    import locale

    return locale.getpreferredencoding(False)


def _encodable(text):
    try:
        text.encode(_default_encoding())
        return True
    except (UnicodeEncodeError, LookupError):
        return False


POSITIONS = ["parse_stack", "append_middleware", "unparse_stack", "prepend_middleware", "write_file.parse_stack", "write_file.append_middleware"]


def default_parse():
    return [mw.ResolveStringReferencesMiddleware(allow_inplace_modification=True), mw.RemoveEnclosingMiddleware(allow_inplace_modification=True)]


def default_unparse():
    return [mw.AddEnclosingMiddleware(allow_inplace_modification=False, default_enclosing="{", reuse_previous_enclosing=False, enclose_integers=True)]


def bounds(tier):
    return {"pool": [l for l, _ in POOL], "max_stack": 2 if tier == "quick" else 3, "positions": POSITIONS, "containers": list(CONTAINERS), "documents": len(DOCS)}


def stacks(tier):
    maxn = 2 if tier == "quick" else 3
    for n in range(0, maxn + 1):
        yield from itertools.product(range(len(POOL)), repeat=n)


def shards(tier):
    return [("stacks", p, d) for p in range(len(POSITIONS)) for d in range(len(DOCS))] + [("files", 0), ("illegal", 0), ("protocol", 0), ("reuse", 0), ("hooks", 0), ("libresults", 0)] + [("reentry", 0)] + [("bigpass", n) for n in BIGPASS_SIZES[tier]] + [("bigfile", e) for e in BIG_ENCODINGS]


def fresh(idxs):
    return [POOL[i][1]() for i in idxs]


def fold(ms, lib):
    for m in ms:
        lib = m.transform(lib)
    return lib


def attempt(f):
    try:
        return ("ok", f())
    except Exception as e:
        return ("raised", type(e).__name__)


def cmp_lib(x):
    return ("ok", canon(x[1])) if x[0] == "ok" else x


def fmt():
    f = BibtexFormat()
    f.indent = "  "
    f.value_column = "auto"
    f.trailing_comma = True
    return f


def check_stack(pos, di, idxs, cname, acc, tmpdir):
    text = DOCS[di]
    cont = CONTAINERS[cname]
    labels = [POOL[i][0] for i in idxs]
    case = {"position": POSITIONS[pos], "doc": di, "stack": labels, "stack_idx": list(idxs), "container": cname}
    acc.trace(2)
    acc.case(sample=lambda: case, nontrivial_key=(pos, di, idxs, cname) if idxs else None)
    position = POSITIONS[pos]
    if position == "parse_stack":
        got = cmp_lib(attempt(lambda: bibtexparser.parse_string(text, parse_stack=cont(fresh(idxs)))))
        exp = cmp_lib(attempt(lambda: fold(fresh(idxs), Splitter(text).split())))
    elif position == "append_middleware":
        got = cmp_lib(attempt(lambda: bibtexparser.parse_string(text, append_middleware=cont(fresh(idxs)))))
        exp = cmp_lib(attempt(lambda: fold(default_parse() + fresh(idxs), Splitter(text).split())))
    else:
        base = lambda: bibtexparser.parse_string(text)
        if position == "unparse_stack":
            got = attempt(lambda: bibtexparser.write_string(base(), unparse_stack=cont(fresh(idxs)), bibtex_format=fmt()))
            exp = attempt(lambda: write(fold(fresh(idxs), base()), fmt()))
        elif position == "prepend_middleware":
            got = attempt(lambda: bibtexparser.write_string(base(), prepend_middleware=cont(fresh(idxs)), bibtex_format=fmt()))
            exp = attempt(lambda: write(fold(fresh(idxs) + default_unparse(), base()), fmt()))
        else:
            path = os.path.join(tmpdir, "out.bib")

            def wf():
                if os.path.exists(path):
                    os.unlink(path)
                if position == "write_file.parse_stack":
                    bibtexparser.write_file(path, base(), parse_stack=cont(fresh(idxs)), bibtex_format=fmt())
                else:
                    bibtexparser.write_file(path, base(), append_middleware=cont(fresh(idxs)), bibtex_format=fmt())
                with open(path) as f:
                    return f.read()

            got = attempt(wf)
            if position == "write_file.parse_stack":
                exp = attempt(lambda: write(fold(fresh(idxs), base()), fmt()))
            else:
                exp = attempt(lambda: write(fold(fresh(idxs) + default_unparse(), base()), fmt()))
    if position.startswith("write_file") and got == ("raised", "UnicodeEncodeError") and exp[0] == "ok" and not _encodable(exp[1]):
        acc.count("write_file_text_not_encodable_in_the_default_encoding")  # (see ASSUMPTIONS: open(path, "w") answers for the platform)
        return
    acc.step(("doc", di, position), ("stack", idxs, cname), got if got[0] == "raised" else ("ok", hash(got[1])))
    acc.outcome(got if got[0] == "raised" else hash(repr(got[1])))
    if got != exp:
        acc.violation(
            {"oracle": "entry_point_equals_folded_stack", "position": position, "container": cname if cname == "iterator" else "sequence", "kind": "raised" if "raised" in (got[0], exp[0]) else "result"},
            {"case": case, "observed": repr(got)[:600], "expected": repr(exp)[:600]},
            size=len(idxs) * 10 + di,
        )
        return
    # state left over between calls: a plain default call afterwards must behave like the documented default
    acc.trace(2)
    if position in ("parse_stack", "append_middleware"):
        got2 = cmp_lib(attempt(lambda: bibtexparser.parse_string(text)))
        exp2 = cmp_lib(attempt(lambda: fold(default_parse(), Splitter(text).split())))
    else:
        got2 = attempt(lambda: bibtexparser.write_string(bibtexparser.parse_string(text)))
        exp2 = attempt(lambda: write(fold(default_unparse(), bibtexparser.parse_string(text)), None))
    if got2 != exp2:
        acc.violation(
            {"oracle": "default_call_after_custom_call", "position": position},
            {"case": case, "observed": repr(got2)[:600], "expected": repr(exp2)[:600]},
            size=len(idxs) * 10 + di,
        )


def check_files(acc, tmpdir):
    # parse_file(path, encoding) == parse_string(decoded content), with and without stacks
    for di, encs in ENCODINGS.items():
        text = DOCS[di]
        for enc in encs:
            try:
                data = text.encode(enc)
            except UnicodeEncodeError:
                continue
            path = os.path.join(tmpdir, f"in{di}.bib")
            with open(path, "wb") as f:
                f.write(data)
            for kw in ({}, {"parse_stack": [0, 4]}, {"append_middleware": [1, 2]}, {"parse_stack": []}):
                case = {"parse_file": di, "encoding": enc, "kwargs": {k: [POOL[i][0] for i in v] for k, v in kw.items()}}
                acc.trace(2)
                acc.case(nontrivial_key=("parse_file", di, enc, tuple(kw)))
                got = cmp_lib(attempt(lambda: bibtexparser.parse_file(path, encoding=enc, **{k: fresh(v) for k, v in kw.items()})))
                exp = cmp_lib(attempt(lambda: bibtexparser.parse_string(text, **{k: fresh(v) for k, v in kw.items()})))
                acc.step(("file", di, enc), ("parse_file", tuple(kw)), got if got[0] == "raised" else "ok")
                if got != exp:
                    acc.violation({"oracle": "parse_file_equals_parse_string_of_decoded_content", "encoding": enc}, {"case": case, "observed": repr(got)[:400], "expected": repr(exp)[:400]})
            if enc == "utf-8":
                # default encoding argument
                got = cmp_lib(attempt(lambda: bibtexparser.parse_file(path)))
                exp = cmp_lib(attempt(lambda: bibtexparser.parse_string(text)))
                if got != exp:
                    acc.violation({"oracle": "parse_file_equals_parse_string_of_decoded_content", "encoding": "default"}, {"case": {"parse_file": di, "encoding": "default"}, "observed": repr(got)[:400], "expected": repr(exp)[:400]})
    # write_file to path / StringIO / real file object == write_string with the same arguments
    for di in range(len(DOCS)):
        for kw in ({}, {"parse_stack": [0, 5]}, {"append_middleware": [1]}, {"parse_stack": []}):
            for with_fmt in (False, True):
                for target in ("path", "stringio", "fileobj"):
                    case = {"write_file": di, "target": target, "kwargs": {k: [POOL[i][0] for i in v] for k, v in kw.items()}, "format": with_fmt}
                    acc.trace(2)
                    acc.case(nontrivial_key=("write_file", di, target, tuple(kw), with_fmt))
                    lib = lambda: bibtexparser.parse_string(DOCS[di])
                    fk = {"bibtex_format": fmt()} if with_fmt else {}
                    path = os.path.join(tmpdir, f"out{di}.bib")

                    def run():
                        args = {k: fresh(v) for k, v in kw.items()}
                        args.update(fk)
                        if target == "path":
                            # whatever the path held before - nothing, the same text with other line ends, something
                            # longer - afterwards it holds exactly the text (read back as bytes)
                            want = ref()[1]
                            outs = []
                            for before in (None, want.replace("\n", "\r\n"), want.replace("\n", "\r"), want + "% stale tail\n" * 3, ""):
                                if os.path.exists(path):
                                    os.unlink(path)
                                if before is not None:
                                    with open(path, "w", newline="") as f:
                                        f.write(before)
                                r = bibtexparser.write_file(path, lib(), **{k: fresh(v) for k, v in kw.items()}, **fk)
                                with open(path, "rb") as f:
                                    outs.append(f.read().decode(_default_encoding()))
                            return (r, outs[0]) if all(o == outs[0] for o in outs) else (r, outs)
                        if target == "stringio":
                            s = io.StringIO()
                            r = bibtexparser.write_file(s, lib(), **args)
                            return (r, s.getvalue())
                        with open(path, "w") as f:
                            r = bibtexparser.write_file(f, lib(), **args)
                        with open(path) as f:
                            return (r, f.read())

                    def ref():
                        args = {}
                        if "parse_stack" in kw:
                            args["unparse_stack"] = fresh(kw["parse_stack"])
                        if "append_middleware" in kw:
                            args["prepend_middleware"] = fresh(kw["append_middleware"])
                        args.update({"bibtex_format": fmt()} if with_fmt else {})
                        return (None, bibtexparser.write_string(lib(), **args))

                    got, exp = attempt(run), attempt(ref)
                    if got == ("raised", "UnicodeEncodeError") and exp[0] != "raised" and target != "stringio" and not _encodable(exp[1][1]):
                        # the process' default text encoding (a C locale without UTF-8 mode: ASCII) cannot hold the text:
                        # open(path, "w") answers for the platform, see ASSUMPTIONS
                        acc.count("write_file_text_not_encodable_in_the_default_encoding")
                        continue
                    acc.step(("wfile", di, target), ("write_file", tuple(kw), with_fmt), got if got[0] == "raised" else hash(repr(got[1])))
                    if got != exp:
                        acc.violation({"oracle": "write_file_writes_what_write_string_returns", "target": target}, {"case": case, "observed": repr(got)[:400], "expected": repr(exp)[:400]})


def check_failures(acc, tmpdir):
    """Calls that are rejected (illegal argument pair, a middleware raising, a non-block result): an existing target file
    keeps its content, a missing one is not created; a library handed in stays a consistent library."""

    class Boom(BlockMiddleware):
        def transform_entry(self, entry, library):
            raise RuntimeError("middleware failed")

    lib0 = lambda: bibtexparser.parse_string(DOCS[1])
    path = os.path.join(tmpdir, "keep.bib")
    bad_calls = {
        "both arguments": lambda target: bibtexparser.write_file(target, lib0(), parse_stack=[], append_middleware=[]),
        "middleware raises": lambda target: bibtexparser.write_file(target, lib0(), append_middleware=[Boom()]),
        "non-block result": lambda target: bibtexparser.write_file(target, lib0(), parse_stack=[Proto("entry", "42")]),
    }
    for name, call in bad_calls.items():
        for existing in (True, False):
            if os.path.exists(path):
                os.unlink(path)
            if existing:
                bibtexparser.write_file(path, lib0())
                with open(path) as f:
                    before = f.read()
            acc.trace()
            acc.case(nontrivial_key=("failure", name, existing))
            r = attempt(lambda: call(path))
            if r[0] != "raised":
                continue
            now = open(path).read() if os.path.exists(path) else None
            exp = before if existing else None
            acc.step(("write_file failure", name), existing, "kept" if now == exp else "touched")
            if now != exp:
                acc.violation(
                    {"oracle": "rejected_write_file_leaves_target", "how": name},
                    {"case": {"failure": name, "existing_file": existing}, "observed": "file truncated / created" if now is not None else "file removed", "expected": "target as before the rejected call"},
                )
    # parse_string(..., library=lib) that is rejected: lib is still a consistent library, and usable
    for name, kw in (("both arguments", dict(parse_stack=[], append_middleware=[])), ("middleware raises", dict(append_middleware=[Boom()])), ("non-block result", dict(parse_stack=[Proto("string", "42")]))):
        lib = bibtexparser.parse_string(DOCS[0])
        acc.trace()
        acc.case(nontrivial_key=("parse failure", name))
        r = attempt(lambda: bibtexparser.parse_string(DOCS[1], library=lib, **kw))
        if r[0] != "raised":
            continue
        problems = _consistency(lib)
        if not problems:
            # the caller empties the library and parses again into it: as into a new library
            attempt(lambda: lib.remove(list(lib.blocks)))
            r2 = attempt(lambda: bibtexparser.parse_string(DOCS[1], library=lib))
            fresh_ = attempt(lambda: bibtexparser.parse_string(DOCS[1]))
            if cmp_lib(r2) != cmp_lib(fresh_):
                problems = "a later parse into the emptied library differs from a parse into a new one"
        if problems:
            acc.violation(
                {"oracle": "library_consistent_after_rejected_parse", "how": name},
                {"case": {"parse_failure": name}, "observed": problems, "expected": "blocks, entries_dict and strings_dict describe the same blocks"},
            )


def _consistency(lib):
    blocks = lib.blocks
    ents = [b for b in blocks if isinstance(b, Entry)]
    strs = [b for b in blocks if isinstance(b, String)]
    if sorted(lib.entries_dict) != sorted(e.key for e in ents) or any(lib.entries_dict[e.key] is not e for e in ents):
        return f"entries_dict {sorted(lib.entries_dict)} vs held entries {[e.key for e in ents]}"
    if sorted(lib.strings_dict) != sorted(s.key for s in strs) or any(lib.strings_dict[s.key] is not s for s in strs):
        return f"strings_dict {sorted(lib.strings_dict)} vs held strings {[s.key for s in strs]}"
    return None


def check_illegal(acc, tmpdir):
    check_failures(acc, tmpdir)
    text = DOCS[0]
    path = os.path.join(tmpdir, "x.bib")
    with open(path, "w") as f:
        f.write(text)
    calls = {
        "parse_string": lambda a, b: bibtexparser.parse_string(text, parse_stack=a, append_middleware=b),
        "parse_file": lambda a, b: bibtexparser.parse_file(path, parse_stack=a, append_middleware=b),
        "write_string": lambda a, b: bibtexparser.write_string(bibtexparser.parse_string(text), unparse_stack=a, prepend_middleware=b),
        "write_file": lambda a, b: bibtexparser.write_file(io.StringIO(), bibtexparser.parse_string(text), parse_stack=a, append_middleware=b),
    }
    for name, f in calls.items():
        for a, b in (([], []), (fresh([0]), fresh([1])), ([], fresh([0])), (fresh([4]), [])):
            acc.trace()
            acc.case(nontrivial_key=("illegal", name, len(a), len(b)))
            r = attempt(lambda: f(a, b))
            acc.step(("illegal", name), (len(a), len(b)), r if r[0] == "raised" else "ok")
            if r != ("raised", "ValueError"):
                acc.violation({"oracle": "both_stack_arguments_raise_valueerror", "entry_point": name}, {"case": {"illegal": name, "stack_len": len(a), "extra_len": len(b)}, "observed": repr(r)[:200], "expected": "ValueError"})


# -- block protocol -----------------------------------------------------------------------------------
KINDS = {"entry": Entry, "string": String, "preamble": Preamble, "explicit": ExplicitComment, "implicit": ImplicitComment}
PROTO_DOC = '@article{e1, f = {1}}\n@string{s1 = "v"}\n@preamble{"p"}\n@comment{ec}\nimplicit text\n@book{e2, g = {2}}\n'


_N = [0]


def extras():
    """Replacement blocks with keys never used before (so no duplicate-key wrapping gets involved); both sides of a
    comparison reset the counter first."""
    _N[0] += 1
    n = _N[0]
    return [Entry("x", f"new{n}a", [Field("n", "1")]), String(f"new{n}b", "2"), ImplicitComment("new3")]


class BlockBag:
    """A user's own collection type (sized, iterable, container - not a sequence)."""

    def __init__(self, items):
        self._items = list(items)

    def __len__(self):
        return len(self._items)

    def __iter__(self):
        return iter(self._items)

    def __contains__(self, x):
        return any(x is i for i in self._items)


class MappingEntry(Entry):
    """A user's Entry subclass that also behaves like a mapping of its fields (sized, iterable over its field keys,
    falsy when it has no fields): still ONE block."""

    def __len__(self):
        return len(self.fields)

    def __iter__(self):
        return iter([f.key for f in self.fields])

    def __contains__(self, k):
        return k in self.fields_dict


def _mapping_entry(with_fields):
    _N[0] += 1
    return MappingEntry("x", f"new{_N[0]}m", [Field("n", "1"), Field("o", "2")] if with_fields else [])


RESULTS = {
    "dict.values()": (lambda b: {1: b, 2: extras()[0]}.values(), 2),
    "{} (empty dict)": (lambda b: {}, 0),
    "frozenset()": (lambda b: frozenset(), 0),
    "user collection [b,c]": (lambda b: BlockBag([b, extras()[1]]), 2),
    "user collection []": (lambda b: BlockBag([]), 0),
    "deque[b,c]": (lambda b: __import__("collections").deque([b, extras()[0]]), 2),
    "a block that is sized and iterable": (lambda b: _mapping_entry(True), 1),
    "a block that is sized, iterable and empty": (lambda b: _mapping_entry(False), 1),
    "user collection [b,42]": (lambda b: BlockBag([b, 42]), TypeError),
    "None": (lambda b: None, 0),
    "[]": (lambda b: [], 0),
    "()": (lambda b: (), 0),
    "block": (lambda b: b, 1),
    "[b]": (lambda b: [b], 1),
    "[b,c]": (lambda b: [b, extras()[0]], 2),
    "(b,c,d)": (lambda b: (b, extras()[0], extras()[1]), 3),
    "[c,b]": (lambda b: [extras()[2], b], 2),
    "generator": (lambda b: (x for x in [b]), TypeError),
    "42": (lambda b: 42, TypeError),
    "0": (lambda b: 0, TypeError),
    "False": (lambda b: False, TypeError),
    "0.0": (lambda b: 0.0, TypeError),
    "abc": (lambda b: "abc", TypeError),
    "object": (lambda b: object(), TypeError),
    "[b,42]": (lambda b: [b, 42], TypeError),
    "[None]": (lambda b: [None], TypeError),
    "dict": (lambda b: {"k": b}, TypeError),
}


class Proto(BlockMiddleware):
    def __init__(self, kind, result):
        super().__init__(allow_inplace_modification=True)
        self.cls = KINDS[kind]
        self.result = RESULTS[result][0]

    def transform_block(self, block, library):
        if type(block) is self.cls:
            return self.result(block)
        return block


def expected_blocks(lib, kind, result):
    """The contents, in order, the property prescribes (replacement blocks have fresh keys, so no wrapping)."""
    cls = KINDS[kind]
    out = []
    for b in lib.blocks:
        if type(b) is cls:
            r = RESULTS[result][0](b)
            if r is None:
                continue
            out.extend([r] if isinstance(r, Entry.__mro__[1]) else list(r))  # (a Block is one block, whatever else it is)
        else:
            out.append(b)
    return [canon(b) for b in out]


class SameKey(BlockMiddleware):
    """In-place probe: gives every entry the same key (keys that collide only after the middleware ran)."""

    def __init__(self, inplace):
        super().__init__(allow_inplace_modification=inplace)

    def transform_entry(self, entry, library):
        entry.key = "same"
        return entry


def check_key_collision(acc):
    from bibtexparser.model import DuplicateBlockKeyBlock

    doc = "@a{K1, x = {1}}\n@string{s = {v}}\n@b{K2, y = {2}}\ncomment\n@c{K3, z = {3}}\n"
    for inplace in (True, False):
        for route in ("transform", "parse_string", "write_string"):
            case = {"key_collision": route, "inplace": inplace}
            acc.trace()
            acc.case(nontrivial_key=("collision", route, inplace))
            try:
                if route == "transform":
                    lib = SameKey(inplace).transform(Splitter(doc).split())
                elif route == "parse_string":
                    lib = bibtexparser.parse_string(doc, parse_stack=[SameKey(inplace)])
                else:
                    text = bibtexparser.write_string(Splitter(doc).split(), unparse_stack=[SameKey(inplace)])
                    lib = None
            except Exception as ex:
                acc.violation({"oracle": "block_result_protocol", "result": "colliding keys", "expected_kind": "blocks"}, {"case": case, "observed": repr(ex), "expected": "a library"})
                continue
            if lib is not None:
                kinds = [type(b).__name__ for b in lib.blocks]
                ok = kinds == ["Entry", "String", "DuplicateBlockKeyBlock", "ImplicitComment", "DuplicateBlockKeyBlock"] and sorted(lib.entries_dict) == ["same"] and lib.entries_dict["same"] is lib.blocks[0]
                if ok:
                    ok = all(b.previous_block is lib.blocks[0] and b.key == "same" for b in lib.blocks if isinstance(b, DuplicateBlockKeyBlock))
                obs = kinds + sorted(lib.entries_dict)
            else:
                ok = text.count("@a{same,") == 1 and "% WARNING" in text and text.count("WARNING") == 2
                obs = text
            acc.step(("collision", route), inplace, "ok" if ok else "bad")
            if not ok:
                acc.violation(
                    {"oracle": "block_result_protocol", "result": "colliding keys", "expected_kind": "first live, later flagged"},
                    {"case": case, "observed": obs, "expected": "Entry, String, DuplicateBlockKeyBlock, ImplicitComment, DuplicateBlockKeyBlock; entries_dict == {same: first}"},
                )


class Proto2(BlockMiddleware):
    """Two kinds of blocks with two different result shapes within one pass."""

    def __init__(self, mapping):
        super().__init__(allow_inplace_modification=True)
        self.mapping = {KINDS[k]: RESULTS[r][0] for k, r in mapping.items()}

    def transform_block(self, block, library):
        f = self.mapping.get(type(block))
        return f(block) if f is not None else block


MIXED_SHAPES = ["None", "[]", "block", "[b,c]", "(b,c,d)", "[c,b]", "dict.values()"]


def check_mixed_protocol(acc):
    """Removals, expansions and one-to-one results mixed within ONE pass of one middleware, in both orders of the two
    kinds in the document (an expansion before a removal, a removal before an expansion, two expansions ...)."""
    for ka, kb in itertools.permutations(KINDS, 2):
        for ra in MIXED_SHAPES:
            for rb in MIXED_SHAPES:
                for route in ("transform", "parse_string"):
                    case = {"mixed_protocol": {ka: ra, kb: rb}, "route": route}
                    acc.trace(2)
                    acc.case(nontrivial_key=("mixed", ka, ra, kb, rb, route))
                    _N[0] = 0
                    exp_blocks = []
                    for b in Splitter(PROTO_DOC).split().blocks:
                        r = RESULTS[ra][0](b) if type(b) is KINDS[ka] else (RESULTS[rb][0](b) if type(b) is KINDS[kb] else b)
                        if r is None:
                            continue
                        exp_blocks.extend([r] if isinstance(r, Entry.__mro__[1]) else list(r))
                    exp = ("ok", [canon(b) for b in exp_blocks])
                    _N[0] = 0
                    if route == "transform":
                        got = attempt(lambda: [canon(b) for b in Proto2({ka: ra, kb: rb}).transform(Splitter(PROTO_DOC).split()).blocks])
                    else:
                        got = attempt(lambda: [canon(b) for b in bibtexparser.parse_string(PROTO_DOC, parse_stack=[Proto2({ka: ra, kb: rb})]).blocks])
                    acc.step(("mixed", ka, kb, route), (ra, rb), "ok" if got[0] == "ok" else got)
                    if got != exp:
                        acc.violation(
                            {"oracle": "block_result_protocol", "result": "two shapes in one pass", "expected_kind": "blocks"},
                            {"case": case, "observed": repr(got)[:300], "expected": repr(exp)[:300]},
                        )


class SharedBuffer(BlockMiddleware):
    """A block middleware that hands back ONE list object for every block of a kind, refilled each time (a reused
    scratch buffer): each block is replaced by what the list held when it was returned."""

    def __init__(self, kind, extra):
        super().__init__(allow_inplace_modification=True)
        self.cls = KINDS[kind]
        self.extra = extra
        self.buf = []

    def transform_block(self, block, library):
        if type(block) is self.cls:
            self.buf.clear()
            self.buf.append(block)
            if self.extra:
                self.buf.append(extras()[2])
            return self.buf
        return block


def check_shared_buffer(acc):
    doc = PROTO_DOC + '@misc{e3, h = {3}}\n@string{s2 = "w"}\nmore text\n'
    for kind in KINDS:
        for extra in (False, True):
            for route in ("transform", "parse_string", "write_string"):
                case = {"protocol": kind, "result": "one list object refilled for every block", "extra": extra, "route": route}
                acc.trace(2)
                acc.case(nontrivial_key=("sharedbuf", kind, extra, route))
                _N[0] = 0
                exp_blocks = []
                for b in Splitter(doc).split().blocks:
                    exp_blocks.extend(([b, extras()[2]] if extra else [b]) if type(b) is KINDS[kind] else [b])
                _N[0] = 0
                if route == "transform":
                    exp = ("ok", [canon(b) for b in exp_blocks])
                    got = attempt(lambda: [canon(b) for b in SharedBuffer(kind, extra).transform(Splitter(doc).split()).blocks])
                elif route == "parse_string":
                    exp = ("ok", [canon(b) for b in exp_blocks])
                    got = attempt(lambda: [canon(b) for b in bibtexparser.parse_string(doc, parse_stack=[SharedBuffer(kind, extra)]).blocks])
                else:
                    exp = attempt(lambda: write(Library(exp_blocks), None))
                    _N[0] = 0
                    got = attempt(lambda: bibtexparser.write_string(Splitter(doc).split(), unparse_stack=[SharedBuffer(kind, extra)]))
                acc.step(("sharedbuf", kind, route), extra, "ok" if got[0] == "ok" else got)
                if got != exp:
                    acc.violation(
                        {"oracle": "block_result_protocol", "result": "one list object refilled for every block", "expected_kind": "blocks"},
                        {"case": case, "observed": repr(got)[:300], "expected": repr(exp)[:300]},
                    )


class RunOnce(BlockMiddleware):
    """Removes itself from the list it was handed in (a caller's run-once idiom); tags like Tag."""

    def __init__(self, stack, tag):
        super().__init__(allow_inplace_modification=True)
        self.stack, self.tag = stack, tag

    def transform_entry(self, entry, library):
        entry.key = entry.key + self.tag
        if self in self.stack:
            self.stack.remove(self)
        return entry


class KeyTag(BlockMiddleware):
    def __init__(self, tag):
        super().__init__(allow_inplace_modification=True)
        self.tag = tag

    def transform_entry(self, entry, library):
        entry.key = entry.key + self.tag
        return entry


class AddsDuringPass(BlockMiddleware):
    """A block hook that adds a block to the library it is given while the pass runs (the docstring allows changing the
    library when in-place modification is allowed)."""

    def __init__(self):
        super().__init__(allow_inplace_modification=True)
        self.done = False

    def transform_entry(self, entry, library):
        if not self.done:
            self.done = True
            library.add(Entry("note", "added_during_the_pass", [Field("n", "{1}")]))
        entry.key = entry.key + "<seen>"
        return entry


def check_live_stack(acc):
    """(a) The stack is the sequence the caller handed in AT THE CALL: a middleware that edits that list while the stack
    runs changes nothing of this call.  (b) A block added to the library by a hook during the pass is a block of that
    library: the entry point gives what the same middleware gives when folded by hand."""
    doc = "@a{k, t = {1}}\n@b{j, u = {2}}\n"
    for pos in ("parse_stack", "append_middleware", "unparse_stack", "prepend_middleware"):
        case = {"live_stack": pos}
        acc.trace(2)
        acc.case(nontrivial_key=("livestack", pos))
        try:
            stack = []
            stack.extend([RunOnce(stack, "a"), KeyTag("b"), KeyTag("c")])
            if pos in ("parse_stack", "append_middleware"):
                lib = bibtexparser.parse_string(doc, **{pos: stack})
                got = [b.key for b in lib.entries]
            else:
                lib = bibtexparser.parse_string(doc)
                out = bibtexparser.write_string(lib, **{pos: stack})
                got = sorted(k for k in ("kabc", "jabc", "kac", "jac", "kab", "jab") if "{" + k + "," in out)
            exp = ["kabc", "jabc"] if pos in ("parse_stack", "append_middleware") else ["jabc", "kabc"]
        except Exception as ex:
            acc.exception(ex, case, "a stack list edited while it runs")
            continue
        if got != exp:
            acc.violation({"oracle": "entry_point_equals_folded_stack", "kind": "the caller's list edited during the call", "position": pos}, {"case": case, "observed": got, "expected": exp})
    for pos in ("parse_stack", "append_middleware"):
        case = {"adds_during_pass": pos}
        acc.trace(2)
        acc.case(nontrivial_key=("addsduringpass", pos))
        try:
            got = cmp_lib(("ok", bibtexparser.parse_string(doc, **{pos: [AddsDuringPass(), KeyTag("!")]})))
            pre = default_parse() if pos == "append_middleware" else []
            exp = cmp_lib(("ok", fold(pre + [AddsDuringPass(), KeyTag("!")], Splitter(doc).split())))
        except Exception as ex:
            acc.exception(ex, case, "a hook that adds to the library")
            continue
        if got != exp:
            acc.violation({"oracle": "entry_point_equals_folded_stack", "kind": "block added by a hook during the pass", "position": pos}, {"case": case, "observed": repr(got)[:300], "expected": repr(exp)[:300]})


def check_protocol(acc):
    check_key_collision(acc)
    check_live_stack(acc)
    check_mixed_protocol(acc)
    check_shared_buffer(acc)
    for kind in KINDS:
        for result, (fn, eff) in RESULTS.items():
            for route in ("transform", "parse_string", "write_string"):
                case = {"protocol": kind, "result": result, "route": route}
                acc.trace(2)
                acc.case(nontrivial_key=("protocol", kind, result, route))
                base = Splitter(PROTO_DOC).split()
                _N[0] = 0
                if eff is TypeError:
                    exp = ("raised", "TypeError")
                else:
                    exp = ("ok", expected_blocks(Splitter(PROTO_DOC).split(), kind, result))
                _N[0] = 0
                if route == "transform":
                    got = attempt(lambda: [canon(b) for b in Proto(kind, result).transform(base).blocks])
                elif route == "parse_string":
                    got = attempt(lambda: [canon(b) for b in bibtexparser.parse_string(PROTO_DOC, parse_stack=[Proto(kind, result)]).blocks])
                else:
                    got = attempt(lambda: bibtexparser.write_string(base, unparse_stack=[Proto(kind, result)]))
                    if exp[0] == "ok":
                        _N[0] = 0
                        exp = attempt(lambda: write(Library(_rebuild(kind, result)), None))
                        _N[0] = 0
                        got = attempt(lambda: bibtexparser.write_string(Splitter(PROTO_DOC).split(), unparse_stack=[Proto(kind, result)]))
                acc.step(("proto", kind, route), result, got if got[0] == "raised" else "ok")
                if got != exp:
                    acc.violation(
                        {"oracle": "block_result_protocol", "result": result, "expected_kind": "TypeError" if eff is TypeError else "blocks"},
                        {"case": case, "observed": repr(got)[:300], "expected": repr(exp)[:300]},
                    )


def _rebuild(kind, result):
    lib = Splitter(PROTO_DOC).split()
    cls = KINDS[kind]
    out = []
    for b in lib.blocks:
        if type(b) is cls:
            r = RESULTS[result][0](b)
            if r is None:
                continue
            out.extend([r] if isinstance(r, Entry.__mro__[1]) else list(r))  # (a Block is one block, whatever else it is)
        else:
            out.append(b)
    return out


HOOKS = {"entry": "transform_entry", "string": "transform_string", "preamble": "transform_preamble", "explicit": "transform_explicit_comment", "implicit": "transform_implicit_comment"}


def make_probe(name, kinds, base=BlockMiddleware, tag=None):
    """A user block middleware class called `name` that overrides exactly the hooks of `kinds` (each notes its tag on the
    block it is given); `base` may be a shipped middleware or another probe (hooks and metadata key are inherited)."""
    tag = tag or name + ":" + "+".join(sorted(kinds))

    def mk(kind):
        def hook(self, block, library, *a, **k):
            block.parser_metadata.setdefault("hooks", []).append(tag)
            inherited = getattr(super(cls_box[0], self), HOOKS[kind])
            return inherited(block, library) if base is not BlockMiddleware else block

        return hook

    cls_box = [None]
    body = {HOOKS[k]: mk(k) for k in kinds}
    body["__init__"] = (lambda self: base.__init__(self)) if hasattr(base, "probe_tag") else (lambda self: base.__init__(self, allow_inplace_modification=True))
    body["probe_tag"] = tag
    own = dict.fromkeys(kinds, tag)
    inherited_tags = dict(getattr(base, "probe_tags", {}))
    body["probe_tags"] = {**inherited_tags, **own}
    body["probe_tag_for"] = lambda self, kind: type(self).probe_tags.get(kind)
    body["probe_kinds"] = frozenset(kinds) | getattr(base, "probe_kinds", frozenset())
    cls_box[0] = type(name, (base,), body)
    return cls_box[0]


def hook_probes():
    e = make_probe("Probe", ["entry"])
    s_ = make_probe("Probe", ["string"])  # a different class of the same name (two modules, a factory)
    allk = make_probe("Probe", list(HOOKS))
    pre = make_probe("AlsoPreambles", ["preamble"], base=mw.RemoveEnclosingMiddleware)
    sub = make_probe("EntryAndImplicit", ["implicit"], base=e)
    com = make_probe("Comments", ["explicit", "implicit"])
    return [("Probe[entry]", e), ("Probe[string]", s_), ("Probe[all]", allk), ("RemoveEnclosing+preamble", pre), ("Probe[entry]+implicit", sub), ("Comments", com)]


def check_hooks(acc, tier):
    """Which hooks run is decided by the class of each instance alone: in every sequence of user block middlewares
    (same-named classes with different hooks, subclasses of each other and of shipped middlewares), through every
    route, each block is handed to exactly the overridden hooks of its kind, once per middleware, in stack order."""
    probes = hook_probes()
    maxn = 2 if tier == "quick" else 3
    kind_of = {Entry: "entry", String: "string", Preamble: "preamble", ExplicitComment: "explicit", ImplicitComment: "implicit"}
    for n in range(1, maxn + 1):
        for idxs in itertools.product(range(len(probes)), repeat=n):
            for route in ("fold", "parse_stack", "append_middleware", "prepend_middleware", "unparse_stack"):
                case = {"hooks": [probes[i][0] for i in idxs], "route": route}
                acc.trace()
                acc.case(nontrivial_key=("hooks", idxs, route))
                ms = [probes[i][1]() for i in idxs]
                try:
                    if route == "fold":
                        lib = fold(ms, Splitter(PROTO_DOC).split())
                    elif route == "parse_stack":
                        lib = bibtexparser.parse_string(PROTO_DOC, parse_stack=ms)
                    elif route == "append_middleware":
                        lib = bibtexparser.parse_string(PROTO_DOC, append_middleware=ms)
                    else:
                        lib = bibtexparser.parse_string(PROTO_DOC)
                        bibtexparser.write_string(lib)  # (a plain call first: whatever it leaves behind must not matter)
                        if route == "prepend_middleware":
                            bibtexparser.write_string(lib, prepend_middleware=ms)
                        else:
                            bibtexparser.write_string(lib, unparse_stack=ms)
                except Exception as ex:
                    acc.exception(ex, case, "stack of user block middlewares")
                    continue
                got = [(kind_of.get(type(b), type(b).__name__), b.parser_metadata.get("hooks", [])) for b in lib.blocks]
                exp = [(k, [m.probe_tag_for(k) for m in ms if m.probe_tag_for(k)]) for k, _ in got]
                acc.step(("hooks", idxs), route, repr(got))
                if got != exp:
                    acc.violation(
                        {"oracle": "exactly_the_overridden_hooks_run", "route": route},
                        {"case": case, "observed": got, "expected": exp},
                        size=n,
                    )


class LenLibrary(Library):
    """A user's Library subclass that has a length (so an empty one is falsy)."""

    def __len__(self):
        return len(self.blocks)


class LibResult(LibraryMiddleware):
    def __init__(self, what):
        super().__init__(allow_inplace_modification=True)
        self.what = what

    def transform(self, library):
        if self.what == "empty LenLibrary":
            return LenLibrary()
        if self.what == "LenLibrary":
            return LenLibrary(blocks=list(library.blocks)[:1])
        if self.what == "empty Library":
            return Library()
        return library


def check_library_results(acc):
    """A library middleware's result IS the library from there on, whatever its truth value: an empty Library, an
    instance of a Library subclass with a length (empty -> falsy), then a probe and the writer / the caller see it."""
    for what in ("empty LenLibrary", "LenLibrary", "empty Library", "same"):
        for route in ("parse_stack", "append_middleware", "prepend_middleware", "unparse_stack"):
            for after in (False, True):
                case = {"library_result": what, "route": route, "probe_after": after}
                acc.trace(2)
                acc.case(nontrivial_key=("libresult", what, route, after))
                ms = lambda: [LibResult(what)] + ([Tag("<t>")] if after else [])
                try:
                    if route == "parse_stack":
                        got = canon(bibtexparser.parse_string(PROTO_DOC, parse_stack=ms()))
                        exp = canon(fold(ms(), Splitter(PROTO_DOC).split()))
                    elif route == "append_middleware":
                        got = canon(bibtexparser.parse_string(PROTO_DOC, append_middleware=ms()))
                        exp = canon(fold(default_parse() + ms(), Splitter(PROTO_DOC).split()))
                    elif route == "prepend_middleware":
                        got = bibtexparser.write_string(bibtexparser.parse_string(PROTO_DOC), prepend_middleware=ms())
                        exp = write(fold(ms() + default_unparse(), bibtexparser.parse_string(PROTO_DOC)), None)
                    else:
                        got = bibtexparser.write_string(bibtexparser.parse_string(PROTO_DOC), unparse_stack=ms())
                        exp = write(fold(ms(), bibtexparser.parse_string(PROTO_DOC)), None)
                except Exception as ex:
                    acc.exception(ex, case, "library middleware returning " + what)
                    continue
                acc.step(("libresult", what, after), route, repr(got)[:80])
                if got != exp:
                    acc.violation(
                        {"oracle": "entry_point_equals_folded_stack", "kind": "library-level result", "result": what, "position": route},
                        {"case": case, "observed": repr(got)[:300], "expected": repr(exp)[:300]},
                    )


BIG_ENCODINGS = ["utf-8", "gbk", "utf-16", "latin-1"]


def check_reuse(acc):
    """The same middleware instances (a user's stack list) over several calls, including calls that fail half way:
    every call must equal the call with fresh instances."""
    seqs = []
    for idxs in itertools.product(range(len(POOL)), repeat=2):
        seqs.append(idxs)
    for idxs in seqs:
        for position in ("parse_stack", "unparse_stack"):
            insts = fresh(idxs)
            for di in (0, 1, 4, 1, 0):
                text = DOCS[di]
                case = {"reuse": [POOL[i][0] for i in idxs], "position": position, "doc": di}
                acc.trace(2)
                acc.case(nontrivial_key=("reuse", idxs, position, di))
                if position == "parse_stack":
                    got = cmp_lib(attempt(lambda: bibtexparser.parse_string(text, parse_stack=insts)))
                    exp = cmp_lib(attempt(lambda: bibtexparser.parse_string(text, parse_stack=fresh(idxs))))
                else:
                    got = attempt(lambda: bibtexparser.write_string(bibtexparser.parse_string(text), unparse_stack=insts))
                    exp = attempt(lambda: bibtexparser.write_string(bibtexparser.parse_string(text), unparse_stack=fresh(idxs)))
                acc.step(("reuse", idxs, position), di, got if got[0] == "raised" else "ok")
                if got != exp:
                    acc.violation(
                        {"oracle": "reused_instances_equal_fresh_instances", "position": position},
                        {"case": case, "observed": repr(got)[:500], "expected": repr(exp)[:500]},
                    )
                    break
    # a block middleware instance that failed (non-block result after some blocks were already collected) and is used again
    for kind in KINDS:
        for bad in ("[b,42]", "42", "generator"):
            inst = Proto(kind, bad)
            r1 = attempt(lambda: inst.transform(Splitter(PROTO_DOC).split()))
            inst.result = RESULTS["block"][0]
            _N[0] = 0
            got = attempt(lambda: [canon(b) for b in inst.transform(Splitter(PROTO_DOC).split()).blocks])
            exp = attempt(lambda: [canon(b) for b in Proto(kind, "block").transform(Splitter(PROTO_DOC).split()).blocks])
            acc.trace(2)
            acc.case(nontrivial_key=("reuse-after-failure", kind, bad))
            if got != exp or r1 != ("raised", "TypeError"):
                acc.violation(
                    {"oracle": "instance_usable_after_a_failed_call", "first_result": bad},
                    {"case": {"reuse_after_failure": kind, "first_result": bad}, "observed": repr(got)[:400], "expected": repr(exp)[:400]},
                )


def check_bigfile(enc, acc, tmpdir):
    """parse_file on large files in multi-byte encodings: every alignment of multi-byte characters against any internal
    block size (the text is shifted by 0..5 one-byte characters), sizes around 64 KiB .. 1 MiB."""
    body = {"utf-8": "凯é撒ü", "gbk": "凯撒测试", "utf-16": "凯é撒\U0001F600", "latin-1": "éüñ"}[enc]
    for size in (70_000, 140_000, 1_100_000):
        for shift in range(6):
            text = "%" + "x" * shift + "\n@a{k%d, note = {" % shift + body * (size // len(body.encode(enc))) + "}}\n@b{j, t = {" + body + "}}\n"
            path = os.path.join(tmpdir, "big.bib")
            with open(path, "wb") as f:
                f.write(text.encode(enc))
            case = {"bigfile": enc, "bytes": os.path.getsize(path), "shift": shift}
            acc.trace(2)
            acc.case(nontrivial_key=("bigfile", enc, size, shift))
            got = cmp_lib(attempt(lambda: bibtexparser.parse_file(path, encoding=enc)))
            exp = cmp_lib(attempt(lambda: bibtexparser.parse_string(text)))
            acc.step(("bigfile", enc, size), shift, got[0])
            if got != exp:
                acc.violation(
                    {"oracle": "parse_file_equals_parse_string_of_decoded_content", "encoding": enc, "size": "large"},
                    {"case": case, "observed": repr(got)[:300], "expected": repr(exp)[:120]},
                )


class _TagKeys(BlockMiddleware):
    def transform_entry(self, entry, library):
        entry.key = entry.key + "!"
        return entry


class _Twice(BlockMiddleware):
    def transform_entry(self, entry, library):
        return [entry, ExplicitComment("after " + entry.key)]


class _DropThirds(BlockMiddleware):
    def transform_entry(self, entry, library):
        return None if int(entry.key[1:].rstrip("!")) % 3 == 0 else entry


REENTRY_OUTER = '@string{os = "ov"}\n@article{o1, author = {Ann Lee and Bo Ray}, t = os, month = jan}\n% between\n@book{o2, u = {x} # os, year = 1999}\n@misc{o3, f = {1}, f = {2}}\n@a{o1, v = 3}\n@misc{o4, g = {7}}\n'
REENTRY_INNER = '@string{is = "iv"}\n@misc{i1, author = {Cy Dow}, w = is, month = 2}\n@misc{i1, dup = 1}\n@broken{i2, a b}\ntrailing text\n@c{i3, q = {4}, q = {5}}\n'


def _inner_calls():
    """What a callback may do with the library while an outer call is running: name -> zero-argument callable that
    returns something canon() can compare."""
    names = lambda: [mw.SeparateCoAuthors(), mw.SplitNameParts()]
    return {
        "parse_string": lambda: bibtexparser.parse_string(REENTRY_INNER),
        "parse_string(parse_stack=[])": lambda: bibtexparser.parse_string(REENTRY_INNER, parse_stack=[]),
        "parse_string with name and month middlewares": lambda: bibtexparser.parse_string(REENTRY_INNER, append_middleware=names() + [mw.MonthIntMiddleware()]),
        "parse of a text that ends inside a block": lambda: bibtexparser.parse_string(REENTRY_INNER + "@d{open, x = {"),
        "write_string": lambda: bibtexparser.write_string(bibtexparser.parse_string(REENTRY_INNER)),
        "write_string with sorting and an auto column": lambda: bibtexparser.write_string(bibtexparser.parse_string(REENTRY_INNER), prepend_middleware=[mw.SortBlocksByTypeAndKeyMiddleware()], bibtex_format=_auto_format()),
        "library edits": lambda: _library_edits(),
        "latex round trip": lambda: mw.LatexDecodingMiddleware().transform(mw.LatexEncodingMiddleware().transform(Library([Entry("a", "x", [Field("t", "caf\xe9 & $a_1$")])]))),
    }


def _auto_format():
    f = BibtexFormat()
    f.value_column = "auto"
    f.indent = "  "
    return f


def _library_edits():
    lib = bibtexparser.parse_string(REENTRY_INNER)
    lib.add(Entry("misc", "i1", [Field("z", "9")]))
    lib.remove(lib.entries[0])
    lib.add(String("is", "again"))
    return lib


class _Reenter(BlockMiddleware):
    """A user block middleware whose entry hook, at the k-th entry it sees, uses the library again - inline, or in another
    thread that it waits for - and otherwise changes nothing."""

    def __init__(self, call, at, threaded, inplace=True):
        super().__init__(allow_inplace_modification=inplace)
        self.call, self.at, self.threaded, self.seen, self.results = call, at, threaded, 0, []

    def transform_entry(self, entry, library):
        if self.seen == self.at:
            if self.threaded:
                import threading

                box = []
                t = threading.Thread(target=lambda: box.append(attempt(self.call)))
                t.start()
                t.join()
                self.results.append(box[0] if box else ("raised", "thread died"))
            else:
                self.results.append(attempt(self.call))
        self.seen += 1
        return entry


def check_reentry(acc):
    """Two calls in flight: while parse_string / write_string run over one document, a callback of the caller's own
    middleware makes a complete second call (every kind of call, at the first / a middle / the last entry, inline or in
    a second thread).  The outer call gives what it gives with a callback that does nothing; the inner call gives what it
    gives on its own."""
    cmpv = lambda r: ("ok", canon(r[1])) if r[0] == "ok" else r
    for name, call in _inner_calls().items():
        alone = cmpv(attempt(call))
        for route in ("parse_string(append_middleware)", "parse_string(parse_stack)", "write_string(prepend_middleware)", "write_string(unparse_stack)"):
            def outer(m):
                if route == "parse_string(append_middleware)":
                    return bibtexparser.parse_string(REENTRY_OUTER, append_middleware=[mw.MonthIntMiddleware(), m, mw.SeparateCoAuthors()])
                if route == "parse_string(parse_stack)":
                    return bibtexparser.parse_string(REENTRY_OUTER, parse_stack=[m, mw.ResolveStringReferencesMiddleware(), mw.RemoveEnclosingMiddleware()])
                lib = bibtexparser.parse_string(REENTRY_OUTER)
                if route == "write_string(prepend_middleware)":
                    return bibtexparser.write_string(lib, prepend_middleware=[m, mw.MonthLongStringMiddleware()], bibtex_format=_auto_format())
                return bibtexparser.write_string(lib, unparse_stack=[mw.AddEnclosingMiddleware(False, True, '"'), m])

            ref = cmpv(attempt(lambda: outer(_Reenter(lambda: None, -1, False))))
            for at in (0, 1, 2):
                for threaded in (False, True):
                    case = {"reentry": name, "route": route, "at_entry": at, "in_another_thread": threaded}
                    acc.trace(2)
                    acc.case(nontrivial_key=("reentry", name, route, at, threaded))
                    acc.count("calls_in_flight")
                    m = _Reenter(call, at, threaded)
                    got = cmpv(attempt(lambda: outer(m)))
                    if not m.results and got == ref:
                        acc.harness_error(f"re-entry callback not reached: {case}")
                        continue
                    inner = cmpv(m.results[0]) if m.results else ("not called",)
                    acc.step(("outer", route), ("inner", name, at, threaded), hash(repr(got)))
                    if got != ref:
                        acc.violation({"oracle": "outer_call_unaffected_by_a_call_made_from_its_callback", "route": route.split("(")[0]}, {"case": case, "observed": repr(got)[:400], "expected": repr(ref)[:400]})
                    elif inner != alone:
                        acc.violation({"oracle": "call_made_from_a_callback_gives_what_it_gives_alone", "inner": name.split("(")[0]}, {"case": case, "observed": repr(inner)[:400], "expected": repr(alone)[:400]})


def check_same_instance_in_flight(acc, bases=None, outer=None, inner=None):
    """Two passes in flight on ONE middleware instance (user block middlewares and user subclasses of shipped ones - the
    shipped block middlewares declare allow_parallel_execution): while the outer pass is at its k-th entry, the hook runs the
    same instance over another library, inline or in a second thread.  Each pass returns its own library's blocks."""
    import threading

    def make(base, inplace):
        class SelfReentering(base):
            def __init__(self):
                super().__init__(allow_inplace_modification=inplace)
                self.at, self.other, self.threaded, self.inner, self.seen = None, None, False, [], 0

            def transform_entry(self, entry, library):
                n, self.seen = self.seen, self.seen + 1
                if self.at is not None and n == self.at:
                    self.at = None
                    run = lambda: self.inner.append(attempt(lambda: self.sig(self.transform(self.other()))))
                    if self.threaded:
                        t = threading.Thread(target=run)
                        t.start()
                        t.join()
                    else:
                        run()
                r = super().transform_entry(entry, library)
                return r

        return SelfReentering

    outer_text = "@a{o1, month = jan, x = 1}\n% c\n@a{o2, month = 2, y = 2}\n@string{s = {v}}\n@a{o3, month = mar}\n"
    inner_text = "@b{i1, month = 11}\n@b{i2, month = dec, z = 3}\n@comment{ic}\n"
    inner_of = lambda b: getattr(b, "ignore_error_block", None)
    sig = lambda lib: [(type(b).__name__, getattr(b, "key", None), [(f.key, repr(f.value)) for f in getattr(b, "fields", [])], (type(inner_of(b)).__name__, getattr(inner_of(b), "key", None), [(f.key, repr(f.value)) for f in getattr(inner_of(b), "fields", [])]) if inner_of(b) is not None else None) for b in lib.blocks]
    bases = bases or {"user block middleware": BlockMiddleware, "MonthIntMiddleware": mw.MonthIntMiddleware, "NormalizeFieldKeys": mw.NormalizeFieldKeys, "RemoveEnclosingMiddleware": mw.RemoveEnclosingMiddleware}
    for bname, base in bases.items():
        for inplace in (True, False):
            cls = make(base, inplace)
            mk_outer = outer or (lambda: Splitter(outer_text).split())
            mk_inner = inner or (lambda: Splitter(inner_text).split())
            plain = lambda mk: attempt(lambda: sig(cls().transform(mk())))
            exp_outer, exp_inner = plain(mk_outer), plain(mk_inner)
            for at in (0, 1, 2):
                for threaded in (False, True):
                    case = {"same_instance_in_flight": bname, "inplace": inplace, "at_entry": at, "in_another_thread": threaded}
                    acc.trace(2)
                    acc.case(nontrivial_key=("same-instance", bname, inplace, at, threaded))
                    acc.count("same_instance_passes_in_flight")
                    m = cls()
                    made = {}

                    def other():
                        made["inner"] = mk_inner()
                        made["inner_before"] = canon(made["inner"])
                        return made["inner"]

                    m.at, m.threaded, m.other, m.sig = at, threaded, other, sig
                    made["outer"] = mk_outer()
                    made["outer_before"] = canon(made["outer"])
                    got = attempt(lambda: sig(m.transform(made["outer"])))
                    if not inplace and got[0] == "ok":
                        # a copying instance leaves its input as it was - also the input of the pass in flight
                        for which in ("outer", "inner"):
                            if which in made and canon(made[which]) != made[which + "_before"]:
                                acc.violation({"oracle": "copying_instance_leaves_its_input", "which_pass": which, "base": bname}, {"case": case, "observed": "the input library of the " + which + " pass changed", "expected": "equal to what it was"})
                    acc.step(("same instance", bname, inplace), ("inner at", at, threaded), hash(repr(got)))
                    if got != exp_outer:
                        acc.violation({"oracle": "outer_pass_unaffected_by_a_pass_in_flight_on_the_same_instance", "base": bname}, {"case": case, "observed": repr(got)[:400], "expected": repr(exp_outer)[:400]})
                    elif not m.inner or m.inner[0] != exp_inner:
                        acc.violation({"oracle": "inner_pass_in_flight_equals_pass_alone", "base": bname}, {"case": case, "observed": repr(m.inner[:1])[:400], "expected": repr(exp_inner)[:400]})


def check_factory_lists(acc):
    """default_parse_stack() / default_unparse_stack() hand out lists: what a caller does with one (insert, clear, reverse -
    deriving its own stack in place) changes neither a later list nor any later default call."""
    from bibtexparser.middlewares.parsestack import default_parse_stack, default_unparse_stack

    text = '@string{s = "v"}\n@a{k, t = {T}, u = s, year = 1999}\n'

    class Mark(BlockMiddleware):
        def transform_entry(self, entry, library):
            entry.fields.append(Field("marked", "{yes}"))
            return entry

    ref_parse = cmp_lib(attempt(lambda: fold(default_parse(), Splitter(text).split())))
    ref_write = attempt(lambda: write(fold(default_unparse(), bibtexparser.parse_string(text)), BibtexFormat()))
    edits = {"insert(0, m)": lambda l: l.insert(0, Mark()), "append(m)": lambda l: l.append(Mark()), "clear()": lambda l: l.clear(), "reverse()": lambda l: l.reverse(), "l[0] = m": lambda l: l.__setitem__(0, Mark())}
    for fname, fac in (("default_parse_stack", default_parse_stack), ("default_unparse_stack", default_unparse_stack)):
        for kw in ({}, {"allow_inplace_modification": True}, {"allow_inplace_modification": False}):
            for ename, edit in edits.items():
                case = {"factory_list": fname, "kwargs": {k: v for k, v in kw.items()}, "edit": ename}
                acc.trace(3)
                acc.case(nontrivial_key=("factory-list", fname, tuple(kw.items()), ename))
                try:
                    first = fac(**kw)
                    types_before = [type(m).__name__ for m in first]
                    edit(first)
                    second = fac(**kw)
                    if second is first or [type(m).__name__ for m in second] != types_before:
                        acc.violation({"oracle": "factory_hands_out_a_list_of_its_own", "factory": fname}, {"case": case, "observed": [type(m).__name__ for m in second], "expected": types_before})
                        continue
                except Exception as ex:
                    acc.exception(ex, case, fname)
                    continue
                got_parse = cmp_lib(attempt(lambda: bibtexparser.parse_string(text)))
                got_write = attempt(lambda: bibtexparser.write_string(bibtexparser.parse_string(text)))
                if got_parse != ref_parse or got_write != ref_write:
                    acc.violation({"oracle": "default_call_after_a_caller_edited_a_factory_list", "factory": fname}, {"case": case, "observed": repr(got_write if got_parse == ref_parse else got_parse)[:400], "expected": repr(ref_write if got_parse == ref_parse else ref_parse)[:400]})


def check_shared_parts(acc):
    """Libraries built in code whose entries share a Field object (or whose blocks occur twice): write_string equals the
    prepended stack, then the default write stack, then the writer - on such a library like on any other."""
    shared = lambda: Field("year", "2020")
    def mk(sh):
        f = shared()
        return Library([Entry("inproceedings", f"p{i}", [Field("title", f"{{T{i}}}"), f if sh else shared()]) for i in range(3)] + [ExplicitComment("c")])
    for prepend in ([], [6] if len(POOL) > 6 else []):
        for sh in (True, False):
            case = {"shared_parts": "a Field object shared by three entries" if sh else "equal Field objects", "prepend": [POOL[i][0] for i in prepend]}
            acc.trace(2)
            acc.case(nontrivial_key=("shared-parts", sh, tuple(prepend)))
            got = attempt(lambda: bibtexparser.write_string(mk(sh), prepend_middleware=fresh(prepend)) if prepend else bibtexparser.write_string(mk(sh)))
            exp = attempt(lambda: write(fold(fresh(prepend) + default_unparse(), mk(False)), BibtexFormat()))
            if got != exp:
                acc.violation({"oracle": "entry_point_equals_folded_stack", "position": "prepend_middleware" if prepend else "default", "container": "sequence", "kind": "shared parts"}, {"case": case, "observed": repr(got)[:400], "expected": repr(exp)[:400]})


BIGPASS_LIGHT = [True]
BIGPASS_SIZES = {"quick": [255, 256, 257, 999, 1000, 1001, 1002, 1003, 1025, 2049, 4099, 16387, 65539], "thorough": [255, 256, 257, 999, 1000, 1001, 1002, 1003, 1025, 2049, 4099, 8193, 16387, 65539]}


def check_bigpass(n, acc):
    """A pass of a block middleware over a library of n blocks (sizes around the thresholds a chunked or parallel pass would
    use): every block is visited once, in order, and its result spliced in its place - through parse_string and
    write_string, with in-place and copying instances, parallel execution allowed or not."""
    text = '@string{s = "v"}\n' + "".join(f"@a{{k{i}, t = {{v{i}}}}}\n" for i in range(n - 2)) + "@comment{end}\n"
    keys = [f"k{i}" for i in range(n - 2)]
    sig = lambda lib: [(type(b).__name__, getattr(b, "key", None) if not isinstance(b, ExplicitComment) else b.comment) for b in lib.blocks]
    expectations = {
        "tag": (_TagKeys, [("String", "s")] + [("Entry", k + "!") for k in keys] + [("ExplicitComment", "end")]),
        "twice": (_Twice, [("String", "s")] + [x for k in keys for x in (("Entry", k), ("ExplicitComment", "after " + k))] + [("ExplicitComment", "end")]),
        "drop": (_DropThirds, [("String", "s")] + [("Entry", k) for i, k in enumerate(keys) if i % 3] + [("ExplicitComment", "end")]),
        "tag,twice,tag": (None, [("String", "s")] + [x for k in keys for x in (("Entry", k + "!!"), ("ExplicitComment", "after " + k + "!"))] + [("ExplicitComment", "end")]),
    }
    light = n > 5000 and BIGPASS_LIGHT[0]
    for name, (cls, exp) in expectations.items():
        if light and name != "tag":
            continue  # (the largest sizes of the quick tier: one middleware, one mode, both routes)
        for inplace in (True, False) if not light else (True,):
            for parallel in (True, False) if not light else (True,):
                mk = lambda c: c(allow_inplace_modification=inplace, allow_parallel_execution=parallel)
                stack = (lambda: [mk(_TagKeys), mk(_Twice), mk(_TagKeys)]) if cls is None else (lambda: [mk(cls)])
                case = {"bigpass": n, "middleware": name, "inplace": inplace, "parallel_allowed": parallel}
                acc.trace(2)
                acc.case(nontrivial_key=("bigpass", n, name, inplace, parallel))
                acc.count("bigpass_cases")
                got = attempt(lambda: sig(bibtexparser.parse_string(text, append_middleware=stack())))
                acc.step(("bigpass", n), (name, inplace, parallel), got[0] if got[0] == "raised" else len(got[1]))
                if got != ("ok", exp):
                    obs = got if got[0] == "raised" else f"{len(got[1])} blocks; first difference at {next((i for i, (x, y) in enumerate(zip(got[1], exp)) if x != y), min(len(got[1]), len(exp)))}"
                    acc.violation({"oracle": "block_pass_visits_every_block_in_order", "route": "parse_string", "middleware": name}, {"case": case, "observed": repr(obs)[:300], "expected": f"{len(exp)} blocks"}, size=n)
                    continue
                # the same through write_string: the prepended stack, then the default stack, then the writer
                lib = bibtexparser.parse_string(text)
                got = attempt(lambda: bibtexparser.write_string(lib, prepend_middleware=stack()))
                ref = attempt(lambda: write(fold(stack() + default_unparse(), bibtexparser.parse_string(text)), BibtexFormat()))
                exp_blocks = len(exp)
                if got != ref or (got[0] == "ok" and got[1].count("@a{") + got[1].count("@comment{") + got[1].count("@string{") != exp_blocks):
                    acc.violation({"oracle": "block_pass_visits_every_block_in_order", "route": "write_string", "middleware": name}, {"case": case, "observed": repr(got)[:200], "expected": f"text of {exp_blocks} blocks, equal to the folded stack"}, size=n)


def run_shard(shard, tier, acc):
    if shard[0] == "bigpass":
        BIGPASS_LIGHT[0] = tier == "quick"
        return check_bigpass(shard[1], acc)
    if shard[0] == "reentry":
        check_factory_lists(acc)
        check_shared_parts(acc)
        check_same_instance_in_flight(acc)
        return check_reentry(acc)
    with tempfile.TemporaryDirectory(prefix="verif-c20-") as tmpdir:
        if shard[0] == "stacks":
            _, pos, di = shard
            for idxs in stacks(tier):
                for cname in CONTAINERS:
                    check_stack(pos, di, idxs, cname, acc, tmpdir)
        elif shard[0] == "reuse":
            check_reuse(acc)
        elif shard[0] == "bigfile":
            check_bigfile(shard[1], acc, tmpdir)
        elif shard[0] == "files":
            check_files(acc, tmpdir)
        elif shard[0] == "illegal":
            check_illegal(acc, tmpdir)
        elif shard[0] == "hooks":
            check_hooks(acc, tier)
        elif shard[0] == "libresults":
            check_library_results(acc)
        else:
            check_protocol(acc)


def replay(case, acc):
    with tempfile.TemporaryDirectory(prefix="verif-c20-") as tmpdir:
        if "stack_idx" in case:
            check_stack(POSITIONS.index(case["position"]), case["doc"], tuple(case["stack_idx"]), case["container"], acc, tmpdir)
        elif "protocol" in case or "mixed_protocol" in case or "live_stack" in case or "adds_during_pass" in case:
            check_protocol(acc)
        elif "hooks" in case:
            check_hooks(acc, "quick" if len(case["hooks"]) <= 2 else "thorough")
        elif "library_result" in case:
            check_library_results(acc)
        elif "reuse" in case or "reuse_after_failure" in case:
            check_reuse(acc)
        elif "bigfile" in case:
            check_bigfile(case["bigfile"], acc, tmpdir)
        elif "bigpass" in case:
            check_bigpass(case["bigpass"], acc)
        elif "reentry" in case:
            check_reentry(acc)
        elif "shared_parts" in case:
            check_shared_parts(acc)
        elif "factory_list" in case:
            check_factory_lists(acc)
        elif "same_instance_in_flight" in case:
            check_same_instance_in_flight(acc)
        elif "failure" in case or "parse_failure" in case:
            check_failures(acc, tmpdir)
        elif "illegal" in case:
            check_illegal(acc, tmpdir)
        else:
            check_files(acc, tmpdir)


def unit_test(case):
    return "# argument position, document number, middleware stack (labels from mc/checks/c20.py POOL), container kind:\n# " + repr(case) + "\n"


def ENV_SHARDS(tier):
    """The broad, cheap families: run again in a fresh interpreter per environment (engine.run_environments)."""
    return [s for s in shards('quick') if s[0] not in ('bigpass', 'bigfile')]

