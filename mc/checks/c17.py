"""C17 — field sorting and key normalisation only permute/merge fields; values intact (DESIGN 4/C17)."""
import itertools

from bibtexparser.library import Library
from bibtexparser.middlewares import NormalizeFieldKeys, SortFieldsAlphabeticallyMiddleware, SortFieldsCustomMiddleware
from bibtexparser.model import Entry, ExplicitComment, Field, ImplicitComment, ParsingFailedBlock, Preamble, String

from .. import leak
from ..canon import canon

ID = "C17"
LEAN = True  # cases are distinct by construction; see engine.Acc
RULE = (
    "entries with 0..5 (quick) / 0..6 (thorough; 0..8 for alphabetical and normalise) fields whose keys range over {a, A, b, B, c} in every "
    "pattern, values unique per position; x alphabetical sorting, key normalisation and custom sorting with every permutation of every subset of "
    "{a, A, b, c} as order, case-sensitive or not; in-place and copy mode; every chain of three middlewares on the same object and apply-edit-apply for entries of <=3 (quick) / <=4 (thorough) fields; the library also holds one block of every other kind. Judged by the "
    "property (permutation, order, ties, merge rule, idempotence, everything else untouched). Non-trivial = entry with >=2 fields (distinct by (entry, middleware))."
)
ASSUMPTIONS = ["key order for alphabetical sorting is Python's string order (code points)"]
STATIC_SAMPLES = [{"keys": ["a", "b", "A"], "middleware": "normalize"}]

KEYS = ["a", "A", "b", "B", "c"]
ORDER_POOL = ["a", "A", "b", "c"]
CUSTOM = [(p, cs) for k in range(0, 5) for p in itertools.permutations(ORDER_POOL, k) for cs in (False, True)]


def bounds(tier):
    return {"field_keys": KEYS, "max_fields_custom": 5 if tier == "quick" else 6, "max_fields_alpha_normalize": 5 if tier == "quick" else 8, "custom_orders": len(CUSTOM)}


def shards(tier):
    return [("pat", a, b) for a in range(len(KEYS)) for b in range(len(KEYS))] + [("short", 0), ("construction", 0), ("ctor", 0), ("leak", 0), ("unicode", 0)] + [("spellings", r) for r in range(16)] + [("longorders", 0), ("many", 0)]


def others():
    return [
        String("A", "sv", 7, "sraw"),
        Preamble("p", 8, "praw"),
        ImplicitComment("ic", 9, "icraw"),
        ExplicitComment("ec", 10, "ecraw"),
        ParsingFailedBlock(Exception("x"), 11, "fraw", Entry("t", "A", [Field("B", "1"), Field("a", "2")])),
    ]


def mk(keys):
    e = Entry("Article", "Key", [Field(k, f"v{i}", start_line=i) for i, k in enumerate(keys)], start_line=3, raw="@Article{Key, ...}")
    e.parser_metadata["pre"] = ["existing"]
    return Library([e] + others())


def pairs(e):
    return [(f.key, f.value) for f in e.fields]


def run_one(keys, mwname, make, acc, rank=None):
    for inplace in (True, False):
        lib = mk(keys)
        src = pairs(lib.blocks[0])
        other_before = [canon(b) for b in lib.blocks[1:]]
        case = {"keys": list(keys), "middleware": mwname, "inplace": inplace}
        acc.trace(2)
        acc.case(sample=lambda: case, nontrivial_key=(keys, mwname, inplace) if len(keys) >= 2 else None)
        try:
            m = make(inplace)
            out = m.transform(lib)
            e = out.blocks[0]
            got = pairs(e)
            again = m.transform(out)
        except Exception as ex:
            acc.exception(ex, case, mwname.split(":")[0], size=len(keys) * 100)
            continue
        acc.step(("entry", keys), mwname, tuple(got))
        acc.outcome(tuple(k for k, _ in got))

        def bad(oracle, obs, exp, **sig):
            s = {"oracle": oracle, "middleware": mwname.split(":")[0]}
            s.update(sig)
            acc.violation(s, {"case": case, "observed": obs, "expected": exp, "source": src}, size=len(keys) * 100 + len(mwname))

        if type(e) is not Entry or (e.entry_type, e.key, e.start_line, e.raw) != ("Article", "Key", 3, "@Article{Key, ...}") or e.parser_metadata.get("pre") != ["existing"]:
            bad("entry_type_key_line_raw_untouched", repr(e), "Article/Key/3/raw and existing metadata")
            continue
        if [canon(b) for b in out.blocks[1:]] != other_before:
            bad("other_blocks_untouched", "changed", "unchanged")
            continue
        # exactly the entry's fields: the field carrying value v<i> is the one from source line i (mk())
        lines = [(f.value, f.start_line) for f in e.fields if not (isinstance(f.value, str) and f.value[:1] == "v" and f.value[1:].isdigit() and f.start_line == int(f.value[1:]))]
        if lines:
            bad("fields_keep_their_line", lines, "start_line i for the field whose value is v<i>")
            continue
        if mwname == "normalize":
            lows = [k.lower() for k, _ in src]
            first_order = list(dict.fromkeys(lows))
            last_val = {}
            for k, v in src:
                last_val[k.lower()] = v
            exp = [(k, last_val[k]) for k in first_order]
            if got != exp:
                gk = [k for k, _ in got]
                if any(k != k.lower() for k in gk):
                    what = "keys_lower_case"
                elif len(gk) != len(set(gk)):
                    what = "keys_unique"
                elif gk != first_order:
                    what = "order_of_first_occurrences"
                else:
                    what = "value_of_last_occurrence"
                bad("normalisation", got, exp, what=what)
                continue
        else:
            if sorted(got) != sorted(src):
                bad("exactly_the_entrys_fields", got, src)
                continue
            r = rank if rank is not None else (lambda k: k)
            ranks = [r(k) for k, _ in got]
            if any(x > y for x, y in zip(ranks, ranks[1:])):
                bad("key_order", got, "non-decreasing rank")
                continue
            # ties (equal rank) keep source order: values carry the source position
            okk = True
            for (k1, v1), (k2, v2) in zip(got, got[1:]):
                if r(k1) == r(k2) and int(v1[1:]) > int(v2[1:]):
                    okk = False
            if not okk:
                bad("ties_keep_source_order", got, "source order among equal ranks")
                continue
        if pairs(again.blocks[0]) != got or canon(again.blocks[0]) != canon(e):
            bad("idempotent", pairs(again.blocks[0]), got)


def check_entry(keys, tier, acc):
    n = len(keys)
    if n <= (3 if tier == "quick" else 4):
        check_chains(keys, acc)
    run_one(keys, "alphabetical", lambda ip: SortFieldsAlphabeticallyMiddleware(allow_inplace_modification=ip), acc)
    run_one(keys, "normalize", lambda ip: NormalizeFieldKeys(allow_inplace_modification=ip), acc)
    if n > (5 if tier == "quick" else 6):
        return
    for order, cs in CUSTOM:
        folded = list(order) if cs else [k.lower() for k in order]
        if len(set(folded)) != len(folded):
            continue  # must be rejected at construction: see check_ctor
        if cs:
            rank = lambda k, o=folded: o.index(k) if k in o else len(o)
        else:
            rank = lambda k, o=folded: o.index(k.lower()) if k.lower() in o else len(o)
        run_one(keys, f"custom:{','.join(order)}:{'cs' if cs else 'ci'}", lambda ip, o=order, c=cs: SortFieldsCustomMiddleware(order=tuple(o), case_sensitive=c, allow_inplace_modification=ip), acc, rank)


CHAIN_POOL = [
    ("alphabetical", lambda ip: SortFieldsAlphabeticallyMiddleware(allow_inplace_modification=ip), None),
    ("normalize", lambda ip: NormalizeFieldKeys(allow_inplace_modification=ip), None),
    ("custom:b,a:ci", lambda ip: SortFieldsCustomMiddleware(order=("b", "a"), case_sensitive=False, allow_inplace_modification=ip), lambda k: {"b": 0, "a": 1}.get(k.lower(), 2)),
    ("custom:A:cs", lambda ip: SortFieldsCustomMiddleware(order=("A",), case_sensitive=True, allow_inplace_modification=ip), lambda k: 0 if k == "A" else 1),
    ("custom::ci", lambda ip: SortFieldsCustomMiddleware(order=(), allow_inplace_modification=ip), lambda k: 0),
]


def stage_ok(name, src, got, rank):
    """The property's clause for one middleware, given the fields it received (src) and returned (got)."""
    if name == "normalize":
        lows = [k.lower() for k, _ in src]
        last_val = {}
        for k, v in src:
            last_val[k.lower()] = v
        return got == [(k, last_val[k]) for k in dict.fromkeys(lows)]
    if sorted(got) != sorted(src):
        return False
    r = rank if rank is not None else (lambda k: k)
    pos = {}
    for n, kv in enumerate(src):
        pos.setdefault(kv, []).append(n)
    order_in = []
    used = {}
    for kv in got:
        i = used.get(kv, 0)
        order_in.append(pos[kv][i])
        used[kv] = i + 1
    keys = [(r(k), n) for (k, _), n in zip(got, order_in)]
    return all(a <= b for a, b in zip(keys, keys[1:]))


def check_chains(keys, acc):
    """Sequences of three middlewares applied to the same library object, one after the other (as in a stack), plus a
    user edit between two applications: every stage must satisfy its clause on the fields it receives."""
    for inplace in (True, False):
        for chain in itertools.product(range(len(CHAIN_POOL)), repeat=3):
            lib = mk(keys)
            names = [CHAIN_POOL[i][0] for i in chain]
            case = {"keys": list(keys), "chain": names, "inplace": inplace}
            acc.trace(3)
            acc.case(nontrivial_key=("chain", keys, chain, inplace))
            for st, i in enumerate(chain):
                name, make, rank = CHAIN_POOL[i]
                src = pairs(lib.blocks[0])
                try:
                    lib = make(inplace).transform(lib)
                except Exception as ex:
                    acc.exception(ex, case, name)
                    break
                got = pairs(lib.blocks[0])
                if not stage_ok(name, src, got, rank):
                    acc.violation(
                        {"oracle": "stage_of_a_chain", "middleware": name.split(":")[0], "stage": st + 1},
                        {"case": case, "observed": got, "expected": f"{name} applied to {src}"},
                        size=len(keys) * 100,
                    )
                    break
            acc.step(("entry", keys), ("chain", chain, inplace), tuple(pairs(lib.blocks[0])) if lib.blocks else ())
        # apply, user edit (new field in front position order / re-assignment), apply again with the same instance
        for i in range(len(CHAIN_POOL)):
            name, make, rank = CHAIN_POOL[i]
            inst = make(inplace)
            lib = inst.transform(mk(keys))
            e = lib.blocks[0]
            e.set_field(Field("zz", "new"))
            e.set_field(Field("0first", "new0"))
            if e.fields:
                e.fields.insert(0, e.fields.pop())
            src = pairs(e)
            case = {"keys": list(keys), "apply_edit_apply": name, "inplace": inplace}
            acc.trace(2)
            acc.case(nontrivial_key=("edit", keys, i, inplace))
            try:
                out = inst.transform(lib)
            except Exception as ex:
                acc.exception(ex, case, name)
                continue
            got = pairs(out.blocks[0])
            if not stage_ok(name, src, got, rank):
                acc.violation(
                    {"oracle": "apply_edit_apply", "middleware": name.split(":")[0]},
                    {"case": case, "observed": got, "expected": f"{name} applied to {src}"},
                    size=len(keys) * 100,
                )


def check_shared_fields(acc):
    """Field objects held by more than one entry (copied references, a template entry) or twice by one entry: each
    middleware treats every entry on its own - what it does to one entry never shows in another."""
    mws = [
        ("alphabetical", lambda ip: SortFieldsAlphabeticallyMiddleware(allow_inplace_modification=ip)),
        ("normalize", lambda ip: NormalizeFieldKeys(allow_inplace_modification=ip)),
        ("custom:b,a:ci", lambda ip: SortFieldsCustomMiddleware(order=("b", "a"), allow_inplace_modification=ip)),
    ]
    for name, make in mws:
        for ip in (True, False):
            for pat in (("B", "a", "b"), ("Title", "title"), ("a", "A", "B", "b")):
                shared = [Field(k, f"v{i}", start_line=i) for i, k in enumerate(pat)]
                e1 = Entry("article", "k1", list(shared))
                e2 = Entry("book", "k2", list(reversed(shared)))  # the same Field objects, other order
                e3 = Entry("misc", "k3", [shared[0], Field("x", "own"), shared[0]])  # one Field object twice
                lib = Library([e1, e2, e3])
                case = {"shared_fields": list(pat), "middleware": name, "inplace": ip}
                acc.trace()
                acc.case(nontrivial_key=("shared", pat, name, ip))
                try:
                    out = make(ip).transform(lib)
                    solo = [make(ip).transform(Library([Entry(e.entry_type, e.key, [Field(f.key, f.value, f.start_line) for f in src])])).blocks[0] for e, src in ((e1, [Field(k, f"v{i}", i) for i, k in enumerate(pat)]), (e2, list(reversed([Field(k, f"v{i}", i) for i, k in enumerate(pat)]))))]
                except Exception as ex:
                    acc.exception(ex, case, name)
                    continue
                got = [pairs(b) for b in out.blocks[:2]]
                exp = [pairs(b) for b in solo]
                acc.step(("shared", pat, name), ip, repr(got))
                if name != "normalize" and got != exp:
                    acc.violation({"oracle": "entries_sharing_field_objects_are_treated_on_their_own", "middleware": name.split(":")[0]}, {"case": case, "observed": got, "expected": exp})
                elif name == "normalize" and [[v for _, v in g] for g in got] != [[v for _, v in x] for x in exp]:
                    # (in place, the shared objects are renamed for all holders alike; the VALUES each entry keeps are its own matter)
                    acc.violation({"oracle": "entries_sharing_field_objects_are_treated_on_their_own", "middleware": "normalize"}, {"case": case, "observed": got, "expected": exp})


def check_long_orders(acc, tier):
    """Custom orders of middling length (5 .. 12 keys, thorough .. 20) with entries that hold listed keys from both ends
    of the order and two or three different unlisted keys in every arrangement of up to 4 (5) fields; one instance per
    order over all entries (listed first in listed order, unlisted after them in source order, also on the 100th call)."""
    top = 12 if tier == "quick" else 20
    # ... and orders around the sizes where small-number and container representations change (255 .. 258, 300, 1000, 5000)
    for n in list(range(5, top + 1)) + [100, 255, 256, 257, 258, 300, 1000] + ([5000] if tier == "thorough" else []):
        order = tuple(f"k{i:02d}" for i in range(n))
        pool = [order[0], order[-1], order[n // 2], "x", "y", "z"]
        rank = lambda k, o=order: o.index(k) if k in o else len(o)
        for ip in (True, False):
            inst = SortFieldsCustomMiddleware(order=order, allow_inplace_modification=ip)
            for m in range(1, ((4 if tier == "quick" else 5) if n <= 20 else 3) + 1):
                for keys in itertools.product(pool, repeat=m):
                    lib = mk(keys)
                    src = pairs(lib.blocks[0])
                    case = {"long_order": n, "keys": list(keys), "inplace": ip}
                    acc.trace()
                    acc.case(nontrivial_key=("long", n, keys, ip))
                    try:
                        got = pairs(inst.transform(lib).blocks[0])
                    except Exception as ex:
                        acc.exception(ex, case, "custom", size=n)
                        continue
                    exp = [kv for _, _, kv in sorted((rank(k), i, (k, v)) for i, (k, v) in enumerate(src))]
                    acc.step(("long", n, keys), ip, tuple(k for k, _ in got))
                    if got != exp:
                        acc.violation(
                            {"oracle": "key_order" if sorted(got) == sorted(exp) else "exactly_the_entrys_fields", "middleware": "custom", "order_length": "middling"},
                            {"case": case, "observed": got, "expected": exp, "source": src},
                            size=n * 10 + m,
                        )
                        break


MANY = {"quick": [15, 16, 17, 31, 32, 33, 64, 100, 101, 150, 257, 1025], "thorough": [15, 16, 17, 31, 32, 33, 64, 100, 101, 150, 257, 1025, 4097, 16385]}


def check_many(acc, tier):
    """Counts beyond the small ones: ONE instance of each middleware over a library of n entries whose keys collide
    case-insensitively (every entry judged, the n-th like the first), and one entry of n fields / n colliding pairs."""
    from bibtexparser.middlewares import NormalizeFieldKeys

    def ref_norm(src):
        last, order = {}, []
        for k, v in src:
            if k.lower() not in last:
                order.append(k.lower())
            last[k.lower()] = v
        return [(k, last[k]) for k in order]

    ref_alpha = lambda src: [kv for _, kv in sorted(enumerate(src), key=lambda t: (t[1][0], t[0]))]
    ref_custom = lambda src: [kv for _, kv in sorted(enumerate(src), key=lambda t: ((0 if t[1][0].lower() == "title" else 1), t[0]))]
    for n in MANY[tier]:
        libs = {
            "n entries with one colliding pair each": Library([Entry("a", f"k{i}", [Field("Title", f"first{i}"), Field("year", "1"), Field("title", f"last{i}")]) for i in range(n)]),
            "one entry with n colliding pairs": Library([Entry("a", "k", [Field(f"F{i}", f"first{i}") for i in range(n)] + [Field(f"f{i}", f"last{i}") for i in range(n)])]),
            "one entry with n distinct keys in reverse order": Library([Entry("a", "k", [Field(f"g{n - i:06d}", str(i)) for i in range(n)] + [Field("title", "t")])]),
        }
        for lname, mklib in libs.items():
            for mwname, fac, ref in (
                ("normalize", lambda ip: NormalizeFieldKeys(allow_inplace_modification=ip), ref_norm),
                ("alphabetical", lambda ip: SortFieldsAlphabeticallyMiddleware(allow_inplace_modification=ip), ref_alpha),
                ("custom", lambda ip: SortFieldsCustomMiddleware(order=("title",), allow_inplace_modification=ip), ref_custom),
            ):
                case = {"many": n, "library": lname, "middleware": mwname}
                acc.trace()
                acc.case(nontrivial_key=("many", n, lname, mwname))
                acc.count("many_cases")
                srcs = [pairs(b) for b in mklib.blocks]
                try:
                    out = fac(False).transform(mklib)
                except Exception as ex:
                    acc.exception(ex, case, mwname, size=n)
                    continue
                acc.step(("many", n, lname), mwname, len(out.blocks))
                for i, (b, src) in enumerate(zip(out.blocks, srcs)):
                    if pairs(b) != ref(src):
                        acc.violation(
                            {"oracle": "many_fields_or_entries_through_one_instance", "middleware": mwname, "library": lname},
                            {"case": dict(case, entry_number=i), "observed": pairs(b)[:6], "expected": ref(src)[:6]},
                            size=n,
                        )
                        break


def check_normalize_in_flight(acc):
    """Two calls in flight on one NormalizeFieldKeys instance: the middleware logs a warning for every colliding key, and a
    logging handler of the application uses the same instance on another entry while the outer call is inside that warning
    (inline, or in a second thread it waits for).  Each entry is normalised from its own fields."""
    import logging
    import threading

    from bibtexparser.middlewares import NormalizeFieldKeys

    def ref_norm(src):
        last, order = {}, []
        for k, v in src:
            if k.lower() not in last:
                order.append(k.lower())
            last[k.lower()] = v
        return [(k, last[k]) for k in order]

    outer_src = [("Title", "t1"), ("year", "y"), ("TITLE", "t2"), ("Author", "a1"), ("title", "t3"), ("author", "a2")]
    inner_src = [("Note", "n1"), ("title", "other"), ("NOTE", "n2"), ("x", "1")]
    mklib = lambda src, key: Library([Entry("a", key, [Field(k, v) for k, v in src])])

    class Reenter(logging.Handler):
        def __init__(self, call, at):
            super().__init__()
            self.call, self.at, self.seen, self.results, self.busy = call, at, 0, [], False

        def createLock(self):
            self.lock = None  # (no handler lock: the second thread logs through this handler while the first is inside emit)

        def emit(self, record):
            if self.busy:
                return
            if self.seen == self.at:
                self.busy = True
                try:
                    self.results.append(self.call())
                except Exception as ex:
                    self.results.append(("raised", type(ex).__name__))
                finally:
                    self.busy = False
            self.seen += 1

    lg = logging.getLogger("bibtexparser")
    was_disabled = logging.root.manager.disable
    logging.disable(logging.NOTSET)
    try:
        for inplace in (True, False):
            for at in (0, 1, 2):
                for threaded in (False, True):
                    case = {"normalize_in_flight": [inplace, at, threaded]}
                    acc.trace(2)
                    acc.case(nontrivial_key=("normalize-in-flight", inplace, at, threaded))
                    acc.count("normalizations_in_flight")
                    m = NormalizeFieldKeys(allow_inplace_modification=inplace)

                    def inner():
                        if not threaded:
                            return pairs(m.transform(mklib(inner_src, "in")).blocks[0])
                        box = []
                        t = threading.Thread(target=lambda: box.append(pairs(m.transform(mklib(inner_src, "in")).blocks[0])))
                        t.start()
                        t.join()
                        return box[0]

                    h = Reenter(inner, at)
                    lg.addHandler(h)
                    try:
                        got = pairs(m.transform(mklib(outer_src, "out")).blocks[0])
                    except Exception as ex:
                        acc.exception(ex, case, "NormalizeFieldKeys.transform")
                        continue
                    finally:
                        lg.removeHandler(h)
                    acc.step(("normalize", inplace), ("inner at record", at, threaded), tuple(got))
                    if not h.results:
                        acc.harness_error(f"the handler was not reached: {case}")
                    elif got != ref_norm(outer_src):
                        acc.violation({"oracle": "outer_call_unaffected_by_a_call_in_flight", "middleware": "normalize"}, {"case": case, "observed": got, "expected": ref_norm(outer_src)})
                    elif h.results[0] != ref_norm(inner_src):
                        acc.violation({"oracle": "inner_call_in_flight_equals_call_alone", "middleware": "normalize"}, {"case": case, "observed": repr(h.results[0]), "expected": ref_norm(inner_src)})
    finally:
        logging.disable(was_disabled)


def check_ctor(acc):
    for order, cs in CUSTOM:
        folded = list(order) if cs else [k.lower() for k in order]
        dup = len(set(folded)) != len(folded)
        acc.trace()
        acc.case(nontrivial_key=("ctor", order, cs))
        try:
            SortFieldsCustomMiddleware(order=tuple(order), case_sensitive=cs)
            raised = None
        except ValueError:
            raised = "ValueError"
        except Exception as ex:
            raised = type(ex).__name__
        if (raised == "ValueError") != dup or raised not in (None, "ValueError"):
            acc.violation(
                {"oracle": "colliding_order_rejected"},
                {"case": {"order": list(order), "case_sensitive": cs}, "observed": raised, "expected": "ValueError" if dup else None},
            )


def check_spellings(acc, stripe=None):
    """The same configuration spelled differently is the same configuration: arguments by position in the documented
    order (order, case_sensitive, allow_inplace_modification), the order as a list or as instances of a str subclass -
    same acceptance at construction, same result, same treatment of the input.  Flags given as 1 / 0 are annotated
    bool, so what a non-bool means is not fixed; but it must mean ONE thing: the instance behaves, on every entry, as
    one of the four bool configurations does (not case-insensitive at construction and case-sensitive when sorting)."""
    from ..subtypes import S

    pats = [k for n in (1, 2, 3) for k in itertools.product(KEYS, repeat=n)]

    def view(out, inp):
        # (the order recorded in the entry's metadata is the caller's own objects: not compared)
        return pairs(out.blocks[0]), [canon(b) for b in out.blocks[1:]], pairs(inp.blocks[0]), [canon(b) for b in inp.blocks[1:]], out is inp

    def behaviour(mkm):
        try:
            m = mkm()
        except Exception as ex:
            return ("rejected", type(ex).__name__)
        out = []
        for keys in pats:
            lib = mk(keys)
            try:
                out.append(repr(view(m.transform(lib), lib)))
            except Exception as ex:
                out.append(("raised", type(ex).__name__))
        return tuple(out)

    for n_, (order, cs) in enumerate(CUSTOM):
        if stripe is not None and n_ % 16 != stripe:
            continue
        readings = {(c, i): behaviour(lambda c=c, i=i: SortFieldsCustomMiddleware(order=tuple(order), case_sensitive=c, allow_inplace_modification=i)) for c in (True, False) for i in (True, False)}
        for ip in (True, False):
            base = readings[(cs, ip)]
            spell = {
                "positional": lambda: SortFieldsCustomMiddleware(tuple(order), cs, ip),
                "order as list": lambda: SortFieldsCustomMiddleware(order=list(order), case_sensitive=cs, allow_inplace_modification=ip),
                "order of str-subclass instances": lambda: SortFieldsCustomMiddleware(order=tuple(S(k) for k in order), case_sensitive=cs, allow_inplace_modification=ip),
                "flags as int": lambda: SortFieldsCustomMiddleware(order=tuple(order), case_sensitive=int(cs), allow_inplace_modification=int(ip)),
            }
            for name, mkm in spell.items():
                case = {"spelling": name, "order": list(order), "case_sensitive": cs, "inplace": ip}
                acc.trace(len(pats))
                acc.case(nontrivial_key=("spelling", name, order, cs, ip))
                got = behaviour(mkm)
                acc.step(("spelling", order, cs, ip), name, hash(got))
                ok = got in readings.values() if name == "flags as int" else got == base
                if not ok:
                    where = next((list(pats[i]) for i in range(len(pats)) if isinstance(got, tuple) and len(got) == len(pats) and isinstance(base, tuple) and len(base) == len(pats) and got[i] != base[i]), None)
                    acc.violation(
                        {"oracle": "same_configuration_same_behaviour", "spelling": name, "what": "construction" if (got[:1] == ("rejected",)) != (base[:1] == ("rejected",)) else "result"},
                        {"case": dict(case, first_differing_keys=where), "observed": repr(got)[:300], "expected": repr(base)[:300] + (" (or any one of the four bool configurations throughout)" if name == "flags as int" else "")},
                    )


ORDER_CONFIGS = [("alpha", None, False)] + [("custom", o, cs) for o in (("title", "author"), ("Author", "title"), ("author",), (), ("year", "Title", "author")) for cs in (False, True)] + [("norm", None, False)]
ORDER_PROBE_KEYS = [("title", "author", "year"), ("Title", "AUTHOR", "author", "year", "note"), ("b", "a", "B", "A"), ()]


def order_behaviour(cfg):
    from bibtexparser.middlewares import NormalizeFieldKeys

    kind, o, cs = cfg
    if kind == "alpha":
        m = SortFieldsAlphabeticallyMiddleware(allow_inplace_modification=False)
    elif kind == "custom":
        m = SortFieldsCustomMiddleware(order=tuple(o), case_sensitive=cs, allow_inplace_modification=False)
    else:
        m = NormalizeFieldKeys(allow_inplace_modification=False)
    out = []
    for keys in ORDER_PROBE_KEYS:
        e = m.transform(Library([Entry("a", "k", [Field(k, str(n)) for n, k in enumerate(keys)])])).blocks[0]
        out.append([[f.key, f.value] for f in e.fields])
    return out

def check_construction_order(acc):
    """mc/order.py: every ordered pair of configurations, against each configuration first in a fresh interpreter."""
    import sys

    from .. import order

    order.run(sys.modules[__name__], acc, group=lambda cfg: 0)


def run_shard(shard, tier, acc):
    if shard[0] == "ctor":
        check_ctor(acc)
        return
    if shard[0] == "construction":
        return check_construction_order(acc)
    if shard[0] == "longorders":
        check_long_orders(acc, tier)
        check_shared_fields(acc)
        return
    if shard[0] == "many":
        check_normalize_in_flight(acc)
        return check_many(acc, tier)
    if shard[0] == "spellings":
        check_spellings(acc, shard[1])
        return
    if shard[0] == "unicode":
        # keys holding characters with a meaning in regular expressions / templates: matched literally
        RK = ["author", "author+an", "a.b", "axb", "a|b", "k(1)", "%s", "{0}", "title"]
        for n in (1, 2, 3):
            for keys in itertools.product(RK, repeat=n):
                for order in (("author", "author+an", "title"), ("a.b",), ("k(1)", "a|b"), ("%s", "{0}"), ("title", "a.b", "axb")):
                    rank = lambda k, o=order: o.index(k) if k in o else len(o)
                    run_one(keys, f"custom:{','.join(order)}:cs", lambda ip, o=order: SortFieldsCustomMiddleware(order=tuple(o), case_sensitive=True, allow_inplace_modification=ip), acc, rank)
                    rank2 = lambda k, o=order: o.index(k.lower()) if k.lower() in o else len(o)
                    run_one(keys, f"custom:{','.join(order)}:ci", lambda ip, o=order: SortFieldsCustomMiddleware(order=tuple(o), allow_inplace_modification=ip), acc, rank2)
        # hand-built keys with blanks around or inside them: a key is the text it is, blanks and all
        WK = ["Note ", " note", "note", "NOTE\t", "no te", "\nnote"]
        for n in (1, 2, 3):
            for keys in itertools.product(WK, repeat=n):
                run_one(keys, "alphabetical", lambda ip: SortFieldsAlphabeticallyMiddleware(allow_inplace_modification=ip), acc)
                run_one(keys, "normalize", lambda ip: NormalizeFieldKeys(allow_inplace_modification=ip), acc)
                for order in (("note",), ("note ", "note"), (" note", "no te")):
                    rank2 = lambda k, o=order: o.index(k.lower()) if k.lower() in o else len(o)
                    run_one(keys, f"custom:{','.join(order)}:ci", lambda ip, o=order: SortFieldsCustomMiddleware(order=tuple(o), allow_inplace_modification=ip), acc, rank2)
        UK = ["Stra\xdfe", "strasse", "STRASSE", "stra\xdfe", "\u017f", "s", "\u0130", "i\u0307", "\xc9", "\xe9", "e\u0301"]
        for n in (1, 2, 3):
            for keys in itertools.product(UK, repeat=n):
                run_one(keys, "alphabetical", lambda ip: SortFieldsAlphabeticallyMiddleware(allow_inplace_modification=ip), acc)
                run_one(keys, "normalize", lambda ip: NormalizeFieldKeys(allow_inplace_modification=ip), acc)
                if n <= 2:
                    for order, cs in ((("strasse", "\xe9"), False), (("Stra\xdfe",), True), (("\u0130", "s"), False), (("Stra\xdfe", "\xc9"), False), (("\u017f", "e\u0301"), False)):
                        if not cs:
                            # "case-insensitively" is decided where lower() and casefold() agree on which of the keys involved are the same
                            allk = list(order) + list(keys)
                            if any((a.lower() == b.lower()) != (a.casefold() == b.casefold()) for a in allk for b in allk):
                                acc.count("unicode_case_reading_dependent_skipped")
                                continue
                        folded = list(order) if cs else [k.lower() for k in order]
                        rank = (lambda k, o=folded: o.index(k) if k in o else len(o)) if cs else (lambda k, o=folded: o.index(k.lower()) if k.lower() in o else len(o))
                        run_one(keys, f"custom:{','.join(order)}:{'cs' if cs else 'ci'}", lambda ip, o=order, c=cs: SortFieldsCustomMiddleware(order=tuple(o), case_sensitive=c, allow_inplace_modification=ip), acc, rank)
        return
    if shard[0] == "leak":
        pats = [k for n in (1, 2, 3) for k in itertools.product(KEYS, repeat=n)]
        inputs = [(lambda k=k: mk(k)) for k in pats]
        from .. import hostile

        P = hostile.libraries()
        for ip in (True, False):
            J = None if ip else leak.copy_judge
            leak.run(lambda: SortFieldsAlphabeticallyMiddleware(allow_inplace_modification=ip), inputs, acc, f"alphabetical({ip})", case_of=lambda i: list(pats[i]), poison=P, judge=J)
            leak.run(lambda: NormalizeFieldKeys(allow_inplace_modification=ip), inputs, acc, f"normalize({ip})", case_of=lambda i: list(pats[i]), poison=P, judge=J)
            for order, cs in CUSTOM[::9]:
                folded = list(order) if cs else [k.lower() for k in order]
                if len(set(folded)) != len(folded):
                    continue
                leak.run(lambda o=order, c=cs: SortFieldsCustomMiddleware(order=tuple(o), case_sensitive=c, allow_inplace_modification=ip), inputs, acc, f"custom({order},{cs},{ip})", case_of=lambda i: list(pats[i]), poison=P, judge=J)
        return
    maxn = 5 if tier == "quick" else 8
    if shard[0] == "short":
        for n in (0, 1):
            for keys in itertools.product(KEYS, repeat=n):
                check_entry(keys, tier, acc)
        return
    _, a, b = shard
    for n in range(2, maxn + 1):
        for rest in itertools.product(KEYS, repeat=n - 2):
            check_entry((KEYS[a], KEYS[b]) + rest, tier, acc)


def replay(case, acc):
    if "construction_order" in case:
        check_construction_order(acc)
    elif "normalize_in_flight" in case:
        check_normalize_in_flight(acc)
    elif "many" in case:
        check_many(acc, "quick" if case["many"] <= 1025 else "thorough")
    elif "shared_fields" in case:
        check_shared_fields(acc)
    elif "long_order" in case:
        check_long_orders(acc, "quick" if (case["long_order"] <= 12 or 20 < case["long_order"] <= 1000) and len(case["keys"]) <= 4 else "thorough")
    elif "spelling" in case:
        check_spellings(acc)
    elif "leak" in case:
        run_shard(("leak", 0), "quick", acc)
    elif "keys" in case and str(case.get("middleware", "")).startswith("custom:") and case["middleware"].count(":") == 2:
        # one custom order, spelled in the label 'custom:<k1,k2,...>:<cs|ci>' (orders outside the main product live here)
        _, o, mode = case["middleware"].split(":")
        order = tuple(o.split(",")) if o else ()
        cs = mode == "cs"
        folded = list(order) if cs else [k.lower() for k in order]
        rank = (lambda k: folded.index(k) if k in folded else len(folded)) if cs else (lambda k: folded.index(k.lower()) if k.lower() in folded else len(folded))
        run_one(tuple(case["keys"]), case["middleware"], lambda ip: SortFieldsCustomMiddleware(order=order, case_sensitive=cs, allow_inplace_modification=ip), acc, rank)
    elif "keys" in case:
        check_entry(tuple(case["keys"]), "thorough", acc)
    else:
        check_ctor(acc)


def unit_test(case):
    return "# entry field keys (values v0, v1, ... by position), middleware: " + repr(case) + "\n"


def ENV_SHARDS(tier):
    """The broad, cheap families: run again in a fresh interpreter per environment (engine.run_environments)."""
    return [s for s in shards('quick') if s[0] in ("short", "ctor", "longorders")]

