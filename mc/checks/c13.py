"""C13 — name parts follow BibTeX's First/von/Last/Jr rules and keep every word once (DESIGN 4/C13)."""
import itertools

import bibtexparser
from bibtexparser.library import Library
from bibtexparser.middlewares.names import (
    InvalidNameError,
    NameParts,
    SeparateCoAuthors,
    SplitNameParts,
    parse_single_name_into_parts,
)
from bibtexparser.model import Entry, Field, MiddlewareErrorBlock

from .. import leak, spaces
from .. import refs_names as R
from ..canon import canon
from ..engine import seq_iter, seq_shards

ID = "C13"
LEAN = True  # cases are distinct by construction; see engine.Acc
RULE = (
    "every token sequence over the 21-token name alphabet (upper/lower/caseless words incl. a brace group holding a control word, digit-led word, special characters "
    "{\\'E}x / {\\'e}x, escapes \\'Ee / \\'ee, control words \\Ob / \\ob at depth 0, space, double space, '~', ',', unbalancing '{' '}' and a bare backslash) up to the "
    "length bound, plus the exact token-edit balls around 4 realistic names; the real parse_single_name_into_parts is compared with a transcription of BibTeX's rules (validated on the "
    "repository's 149-name corpus) and, for pure word/separator sequences, with a constructive oracle that knows each word's "
    "designed case. Invalid names must raise InvalidNameError / become a MiddlewareErrorBlock that retains the entry. "
    "Non-trivial = valid name with >=3 words or a comma, or an invalid name (distinct by string)."
)
ASSUMPTIONS = [
    "words whose case BibTeX takes from its built-in control-sequence table ({\\aa}, {\\AE}x, ...) are outside the alphabet: the property does not define their case",
    "names with an empty von-Last section (', BB') are neither valid nor listed as invalid by the property: only word conservation is decided for them",
]
STATIC_SAMPLES = ["AA bb CC dd", "bb CC, AA", "AA {BB"]

WORDS = [
    ("AA", R.U),
    ("bb", R.L),
    ("{cc}", R.X),
    ("1b", R.L),
    ("{\\'E}x", R.U),
    ("{\\'e}x", R.L),
    ("\\'Ee", R.U),
    ("\\'ee", R.L),
    ("{C\\dd}", R.X),  # an ordinary brace group is caseless whatever it contains (also a control word)
    ("\\Ob", R.U),  # case taken from a control word at brace depth 0
    ("\\ob", R.L),
    ("{\\ E}x", R.U),  # a special character with an empty control sequence (backslash-blank): the E decides
]
SEPS = [" ", "~", ",", "  "]
ODD = ["\xa0", "\r", "%"]  # NBSP is not a word separator for this code (documented set: space ~ CR LF tab); CR is
RAW = ["{", "}", "\\"]
SIGMA_MAIN = [w for w, _ in WORDS] + SEPS + RAW
SIGMA = SIGMA_MAIN + ODD
SIGMA_WORDS = [w for w, _ in WORDS][:6] + ["{C\\dd}", " ", ","]
_CASE = dict(WORDS)
# words by Unicode case class: a letter without case (CJK), a cased character that is not a letter (small roman
# numeral, feminine ordinal), a title-case letter, a caseless digit-like character; judged by the transcription, whose
# rule is the implementation's documented one (first letter at depth 0: upper case if isupper(), else lower case)
SIGMA_CLASS = ["AA", "bb", "\u4e2d", "\u2177", "\u01c5", "\xaa", " ", ",", "{\\'1}X", "{\\'\u4e2d}x", "{\\'{\\i}}", "{\\'{\\I}}x", "{\\\xe9a}X"]  # (the last: a control word spelled with a non-ASCII letter; the four before it: special characters holding a digit / a letter without case / their first letter as a control word in a nested group)


def bounds(tier):
    return {
        "alphabet": SIGMA,
        "max_len": 4 if tier == "quick" else 5,
        "main_alphabet": SIGMA_MAIN,
        "main_alphabet_max_len": 5 if tier == "quick" else 6,
        "word_alphabet_max_len": 7 if tier == "quick" else 8,
        "word_alphabet": SIGMA_WORDS,
        "case_class_alphabet": SIGMA_CLASS,
        "case_class_max_len": 5 if tier == "quick" else 6,
        "deviation_bases": ["".join(b) for b in BASES],
        "deviation_bound": 2 if tier == "quick" else 3,
    }


def shards(tier):
    # the full alphabet (incl. NBSP / CR) one token shorter than the main alphabet
    out = [("seq", s) for s in seq_shards(SIGMA, 4 if tier == "quick" else 5)]
    n = 5 if tier == "quick" else 6
    out += [("main", s) for s in seq_shards(SIGMA_MAIN, n, min_len=n)]
    # deeper over words and the main separators only: up to 4 (quick) / 5 (thorough) words in every case pattern
    out += [("words", s) for s in seq_shards(SIGMA_WORDS, 7 if tier == "quick" else 8, min_len=6 if tier == "quick" else 7, prefix_len=3)]
    out += [("class", s) for s in seq_shards(SIGMA_CLASS, 5 if tier == "quick" else 6)]
    out += [("patterns", n, first) for n in range(5, (8 if tier == "quick" else 10)) for first in range(3)]
    out += [("mw", 0), ("mw", 1), ("mw", 2), ("leak", 0), ("deep", 0)]
    out += [("ball", b, k, st, n) for (_, b, k, st, n) in spaces.ball_shards(len(BASES), 2 if tier == "quick" else 3)]
    return out


# realistic names as token lists over SIGMA: every name within k token edits of one of them is explored
BASES = [
    ["AA", " ", "bb", " ", "AA", " ", "bb"],
    ["bb", " ", "AA", ",", " ", "AA", "~", "AA"],
    ["AA", "{", "}", " ", "\\Ob", "{", "}", "bb", " ", "AA"],
    ["{\\'E}x", " ", "bb", " ", "AA", ",", " ", "AA", ",", " ", "{cc}"],
]


def constructive(tokens):
    """Oracle (i): only for sequences of designed words and separators.  Returns parts dict, 'invalid' or None."""
    if any(t in RAW or t in ODD for t in tokens):
        return None
    sections = [[]]
    cases = [[]]
    cur = []
    for t in list(tokens) + [" "]:
        if t in SEPS:
            if cur:
                sections[-1].append("".join(cur))
                cases[-1].append(next((_CASE[w] for w in cur if _CASE[w] != R.X), R.X))
                cur = []
            if t == ",":
                sections.append([])
                cases.append([])
        else:
            cur.append(t)
    if len(sections) > 3 or (len(sections) > 1 and not sections[-1]):
        return "invalid"
    if len(sections) > 1 and not sections[0]:
        return "unspecified"
    if len(sections) == 1 and not sections[0]:
        return dict(first=[], von=[], last=[], jr=[])
    return R.partition(sections, cases)


def as_dict(p):
    return dict(first=list(p.first), von=list(p.von), last=list(p.last), jr=list(p.jr))


def check_name(name, acc, tokens=None, case=None):
    case = case if case is not None else {"name": name}
    acc.trace()
    try:
        ref = R.name_parts(name)
    except R.Invalid as e:
        ref = "invalid"
    unspecified = ref != "invalid" and R.has_empty_leading_section(name)
    if tokens is not None:
        c = constructive(tokens)
        if c is not None and not (c == "unspecified" and unspecified) and c != ref and not unspecified:
            acc.count("oracle_disagreements")
            if acc.counters["oracle_disagreements"] <= 3:
                acc.notes.add(f"oracle disagreement on {name!r}: constructive={c!r} transcription={ref!r}")
            acc.case()
            return
    try:
        got = parse_single_name_into_parts(name)
        obs = as_dict(got) if isinstance(got, NameParts) else ("not NameParts", repr(got))
        if isinstance(got, NameParts) and (tokens is None or acc.evaluations % 8 == 0 or len(name) > 12):
            # (every 8th enumerated name, all longer ones and all replays)
            # the returned object is the caller's: editing it (as in-place middlewares do) must not show up in later calls
            got.first.append("<edited>")
            got.von.insert(0, "<edited>")
            got.last.clear()
            got.jr.append("<edited>")
            again = parse_single_name_into_parts(name)
            if as_dict(again) != obs:
                acc.violation(
                    {"oracle": "result_is_a_fresh_object"},
                    {"case": case, "observed": as_dict(again), "expected": obs},
                    size=len(name),
                )
                return
    except InvalidNameError:
        obs = "invalid"
    except Exception as e:
        obs = ("raised", type(e).__name__)
    nwords = sum(len(v) for v in ref.values()) if isinstance(ref, dict) else 0
    nontrivial = ref == "invalid" or nwords >= 3 or ("," in name and nwords >= 1)
    acc.case(sample=lambda: {"name": name, "parts": obs}, nontrivial_key=name if nontrivial else None)
    acc.step(("name", name), "parse", canon(obs))
    acc.outcome(canon(obs) if not isinstance(obs, dict) else tuple(len(obs[k]) for k in ("first", "von", "last", "jr")))
    if isinstance(obs, tuple):
        acc.violation(
            {"oracle": "invalid_name_error_only", "observed": obs[1] if obs[0] == "raised" else "type"},
            {"case": case, "observed": obs, "expected": ref},
            size=len(name),
        )
        return
    if ref == "invalid":
        if obs != "invalid":
            acc.violation(
                {"oracle": "invalid_name_reported"},
                {"case": case, "observed": obs, "expected": "InvalidNameError"},
                size=len(name),
            )
        return
    if obs == "invalid":
        acc.violation(
            {"oracle": "valid_name_accepted"},
            {"case": case, "observed": "InvalidNameError", "expected": ref},
            size=len(name),
        )
        return
    # every word once, in source order within its section
    try:
        secs = R.sections_of(name)
    except R.Invalid:
        secs = None
    if secs is not None:
        flat_expected = [w for s in secs for w in s]
        if len(secs) == 1:
            flat_got = obs["first"] + obs["von"] + obs["last"] + obs["jr"]
        elif len(secs) == 2:
            flat_got = obs["von"] + obs["last"] + obs["jr"] + obs["first"]
        else:
            flat_got = obs["von"] + obs["last"] + obs["jr"] + obs["first"]
        if flat_got != flat_expected:
            acc.violation(
                {"oracle": "every_word_once", "kind": "altered" if sorted(flat_got) != sorted(flat_expected) else "order"},
                {"case": case, "observed": obs, "expected_words": flat_expected},
                size=len(name),
            )
            return
    if unspecified:
        acc.count("unspecified_empty_leading_section")
        return
    if obs != ref:
        form = "comma" if "," in name else "plain"
        diff = [k for k in ("first", "von", "last", "jr") if obs[k] != ref[k]]
        acc.violation(
            {"oracle": "bibtex_partition", "form": form, "parts": diff},
            {"case": case, "observed": obs, "expected": ref},
            size=len(name),
        )


INVALID_NAMES = ["AA {BB", "AA BB}", "AA, BB, CC, DD", "AA,", "AA, ", "{AA} bb}", "AA {{BB}", ",", "AA, bb,"]
VALID_NAMES = ["AA bb CC", "bb CC, AA", "Knuth, Jr, Donald"]


def check_key_twice(acc):
    """A name field key held twice by an entry (built by a program; the inner entry of a duplicate-field block): every
    occurrence is split on its own, in its own place, and the other fields stay where they are."""
    groups = [["AA bb CC", "bb CC, AA"], ["Knuth, Donald E."], ["{cc} dd EE", "AA BB, Jr, CC"], ["de la Vall{\\'e}e Poussin, Charles"]]
    for g1 in groups:
        for g2 in groups:
            if g1 is g2:
                continue
            for inplace in (True, False):
                fields = [Field("author", list(g1), 1), Field("title", "T", 2), Field("author", list(g2), 3), Field("editor", list(g1), 4), Field("editor", list(g2), 5)]
                e = Entry("article", "k", fields, start_line=0, raw="@article{k, ...}")
                case = {"name_key_twice": [g1, g2], "inplace": inplace}
                acc.trace()
                acc.case(nontrivial_key=("twice", tuple(g1), tuple(g2), inplace))
                try:
                    out = SplitNameParts(allow_inplace_modification=inplace).transform(Library([e])).blocks[0]
                    got = [(f.key, [as_dict(p) for p in f.value] if isinstance(f.value, list) and f.value and not isinstance(f.value[0], str) else f.value, f.start_line) for f in out.fields]
                    want = lambda g: [as_dict(parse_single_name_into_parts(n)) for n in g]
                    exp = [("author", want(g1), 1), ("title", "T", 2), ("author", want(g2), 3), ("editor", want(g1), 4), ("editor", want(g2), 5)]
                except Exception as ex:
                    acc.exception(ex, case, "SplitNameParts on an entry holding a name key twice")
                    continue
                if got != exp:
                    acc.violation({"oracle": "every_occurrence_of_a_name_field_is_split_in_place"}, {"case": case, "observed": repr(got)[:400], "expected": repr(exp)[:400]})


def check_middleware(which, acc):
    """Invalid name -> MiddlewareErrorBlock retaining the entry; never another exception."""
    if which == 0:
        check_key_twice(acc)
        for bad in INVALID_NAMES:
            for pos in range(3):
                for inplace in (True, False):
                    for other_field in ("editor", "translator"):
                        names = list(VALID_NAMES)
                        names.insert(pos, bad)
                        fields = [
                            Field("title", "T", 2),
                            Field("author", list(names), 3),
                            Field("year", "1999", 4),
                            Field(other_field, ["AA bb CC"], 5),
                        ]
                        if pos == 2:
                            fields[1], fields[3] = fields[3], fields[1]  # failing field last, another name field first
                        e = Entry("article", "k", fields, start_line=1, raw="@article{k, ...}")
                        spec = [(f.key, list(f.value) if isinstance(f.value, list) else f.value, f.start_line) for f in fields]
                        snapshot = [(f.key, canon(f.value), f.start_line) for f in e.fields]
                        case = {"middleware": "SplitNameParts", "bad": bad, "pos": pos, "inplace": inplace, "other": other_field}
                        acc.trace()
                        acc.case(nontrivial_key=("mw", bad, pos, inplace, other_field))
                        try:
                            out = SplitNameParts(allow_inplace_modification=inplace).transform(Library([e]))
                        except Exception as ex:
                            acc.violation({"oracle": "error_block_not_exception", "exception": type(ex).__name__}, {"case": case, "observed": repr(ex), "expected": "MiddlewareErrorBlock"})
                            continue
                        b = out.blocks[0] if len(out.blocks) == 1 else None
                        acc.step(("mw", bad, pos, inplace), "transform", type(b).__name__)
                        if not isinstance(b, MiddlewareErrorBlock) or not isinstance(b.error, InvalidNameError):
                            acc.violation({"oracle": "invalid_name_becomes_error_block"}, {"case": case, "observed": type(b).__name__, "expected": "MiddlewareErrorBlock(InvalidNameError)"})
                            continue
                        # the same list of persons again: in a second entry of one library, and in a later library that goes
                        # through the SAME instance - every occurrence is reported, none comes back shortened
                        try:
                            mk = lambda key: Entry("article", key, [Field(k_, list(v_) if isinstance(v_, list) else v_, l_) for k_, v_, l_ in spec], start_line=1, raw="@article{%s, ...}" % key)
                            m_ = SplitNameParts(allow_inplace_modification=inplace)
                            kinds = []
                            for lib_ in (Library([mk("k1"), mk("k2")]), Library([mk("k3")])):
                                kinds += [type(x).__name__ for x in m_.transform(lib_).blocks]
                            if kinds != ["MiddlewareErrorBlock"] * 3:
                                acc.violation({"oracle": "invalid_name_becomes_error_block", "occurrence": "the same list again (one instance)"}, {"case": case, "observed": kinds, "expected": ["MiddlewareErrorBlock"] * 3})
                                continue
                        except Exception as ex:
                            acc.violation({"oracle": "error_block_not_exception", "exception": type(ex).__name__}, {"case": case, "observed": repr(ex), "expected": "MiddlewareErrorBlock"})
                            continue
                        try:
                            import copy as _copy

                            _copy.deepcopy(b)
                            text_out = bibtexparser.write_string(out)
                            if not isinstance(text_out, str) or "@article{k, ...}" not in text_out:
                                raise ValueError("failed block not written verbatim")
                        except Exception as ex:
                            acc.violation(
                                {"oracle": "error_block_can_be_copied_and_written", "exception": type(ex).__name__},
                                {"case": case, "observed": f"{type(ex).__name__}: {str(ex)[:200]}", "expected": "deepcopy and write_string succeed on a library holding the error block"},
                            )
                            continue
                        inner = b.ignore_error_block
                        okk = (
                            isinstance(inner, Entry)
                            and (inner.entry_type, inner.key, inner.raw, inner.start_line) == ("article", "k", "@article{k, ...}", 1)
                            and [f.key for f in inner.fields] == [s[0] for s in snapshot]
                            and (b.raw, b.start_line) == (inner.raw, inner.start_line)
                        )
                        if okk:
                            for f, (k, v, ln) in zip(inner.fields, snapshot):
                                if k in ("title", "year") and (canon(f.value) != v or f.start_line != ln):
                                    okk = False
                                if k == "author" and canon(f.value) != v:
                                    okk = False  # the failing field keeps the original list
                                if k == other_field and canon(f.value) != v:
                                    # may be original or already split
                                    if not (isinstance(f.value, list) and all(isinstance(x, NameParts) for x in f.value)):
                                        okk = False
                        if not okk:
                            acc.violation(
                                {"oracle": "error_block_retains_entry"},
                                {"case": case, "observed": repr(inner)[:300], "expected": "the original entry (type, key, raw, line, field keys, non-name fields, failing field untouched)"},
                            )
    elif which == 2:
        import itertools

        # a user's subclass that answers name_fields itself (a property override: the documented read access is the one used)
        class ReviewersToo(SplitNameParts):
            @property
            def name_fields(self):
                return ("author", "reviewer")

        for inplace in (True, False):
            for keys in itertools.permutations(["author", "editor", "reviewer", "title"], 3):
                e = Entry("book", "b", [Field(k, ["AA bb CC", "Knuth, Donald"] if k != "title" else "T") for k in keys])
                case = {"middleware": "name_fields override", "order": list(keys), "inplace": inplace}
                acc.trace()
                acc.case(nontrivial_key=("override", keys, inplace))
                try:
                    out = ReviewersToo(allow_inplace_modification=inplace).transform(Library([e])).blocks[0]
                    got = [(f.key, [as_dict(p) for p in f.value] if isinstance(f.value, list) and not isinstance(f.value[0], str) else f.value) for f in out.fields]
                except Exception as ex:
                    acc.exception(ex, case, "SplitNameParts subclass overriding name_fields")
                    continue
                split = [as_dict(parse_single_name_into_parts(n)) for n in ("AA bb CC", "Knuth, Donald")]
                exp = [(k, split if k in ("author", "reviewer") else ("T" if k == "title" else ["AA bb CC", "Knuth, Donald"])) for k in keys]
                if got != exp:
                    acc.violation({"oracle": "each_name_field_gets_its_own_parts", "field": "the fields name_fields answers"}, {"case": case, "observed": repr(got)[:300], "expected": repr(exp)[:300]})

        names = {"author": ["Ludwig van Beethoven", "AA bb CC"], "editor": ["de la Fontaine, Jr, Jean"], "translator": ["{cc} DD"]}
        for order in itertools.permutations(["author", "editor", "translator", "title"]):
            for inplace in (True, False):
                fields = [Field(k, list(names[k]) if k in names else "T") for k in order]
                e = Entry("book", "b", fields)
                case = {"middleware": "field order", "order": list(order), "inplace": inplace}
                acc.trace()
                acc.case(nontrivial_key=("order", order, inplace))
                try:
                    out = SplitNameParts(allow_inplace_modification=inplace).transform(Library([e])).blocks[0]
                except Exception as ex:
                    acc.violation({"oracle": "error_block_not_exception", "exception": type(ex).__name__}, {"case": case, "observed": repr(ex), "expected": "an entry"})
                    continue
                for f in getattr(out, "fields", []):
                    if f.key in names:
                        exp = [NameParts(**R.name_parts(n)) for n in names[f.key]]
                        if f.value != exp:
                            acc.violation(
                                {"oracle": "each_name_field_gets_its_own_parts", "field": f.key},
                                {"case": case, "observed": repr(f.value)[:300], "expected": repr(exp)[:300]},
                            )
                            break
                    elif f.value != "T":
                        acc.violation({"oracle": "each_name_field_gets_its_own_parts", "field": f.key}, {"case": case, "observed": repr(f.value), "expected": "T"})
                if [f.key for f in getattr(out, "fields", [])] != list(order):
                    acc.violation({"oracle": "each_name_field_gets_its_own_parts", "field": "order"}, {"case": case, "observed": repr(out)[:200], "expected": list(order)})
    else:
        # through parse_string with the middlewares appended (too many commas / trailing comma can be written in a braced field)
        for bad in ["AA, BB, CC, DD", "AA,", "AA, bb,"]:
            for fld in ("author", "editor", "translator"):
                doc = f"@article{{k1, title = {{T}}, {fld} = {{AA bb CC and {bad} and DD EE}}, year = 1999}}\n@book{{k2, author = {{Good Name}}}}"
                case = {"document": doc}
                acc.trace()
                acc.case(nontrivial_key=("doc", bad, fld))
                try:
                    lib = bibtexparser.parse_string(doc, append_middleware=[SeparateCoAuthors(), SplitNameParts()])
                except Exception as ex:
                    acc.violation({"oracle": "error_block_not_exception", "exception": type(ex).__name__}, {"case": case, "observed": repr(ex), "expected": "library with a MiddlewareErrorBlock"})
                    continue
                b0 = lib.blocks[0]
                ok = (
                    len(lib.blocks) == 2
                    and isinstance(b0, MiddlewareErrorBlock)
                    and isinstance(b0.ignore_error_block, Entry)
                    and b0.ignore_error_block.key == "k1"
                    and [f.key for f in b0.ignore_error_block.fields] == ["title", fld, "year"]
                    and b0.ignore_error_block.fields_dict[fld].value == ["AA bb CC", bad.strip(), "DD EE"]
                    and b0.ignore_error_block.fields_dict["title"].value == "T"
                    and isinstance(lib.blocks[1], Entry)
                    and lib.blocks[1].fields[0].value == [NameParts(first=["Good"], last=["Name"])]
                )
                if not ok:
                    acc.violation({"oracle": "error_block_through_parse_string"}, {"case": case, "observed": [repr(b)[:200] for b in lib.blocks], "expected": "MiddlewareErrorBlock retaining entry k1, entry k2 split"})


def check_in_flight(acc):
    """Two passes in flight on one SplitNameParts / SeparateCoAuthors instance (C20's family), on libraries whose entries
    hold invalid names in the first, a later and the last position: each error block retains ITS original entry."""
    from bibtexparser.middlewares.names import MergeCoAuthors, MergeNameParts

    from .c20 import check_same_instance_in_flight

    sep = lambda text: (lambda: SeparateCoAuthors().transform(bibtexparser.parse_string(text)))
    outer = sep("@a{o1, author = {Ann Lee and Bad, Name, With, Commas}, t = {x}}\n@a{o2, author = {Bo Ray}, editor = {Cy Dow and Trailing,}}\n@a{o3, author = {Di Eck}}\n")
    inner = sep("@b{i1, author = {Ed Fox}}\n@b{i2, editor = {Also, Bad, Name, Here and Gil Hay}}\n")
    check_same_instance_in_flight(acc, {"SplitNameParts": SplitNameParts}, outer, inner)
    check_same_instance_in_flight(acc, {"SeparateCoAuthors": SeparateCoAuthors}, lambda: bibtexparser.parse_string("@a{o1, author = {Ann Lee and Bo Ray}}\n@a{o2, editor = {Cy Dow}}\n@a{o3, author = {Di Eck and Ed Fox and Gil Hay}}\n"), lambda: bibtexparser.parse_string("@b{i1, author = {Ed Fox and Al Eck}}\n@b{i2, t = {x}}\n"))


DEEP = [10, 100, 500, 990, 1000, 1010, 2000, 5000]


def check_deep(acc):
    """Brace groups nested n deep (around and beyond the interpreter's default recursion limit) as a word, inside a word
    and in every comma section; the same with one closing brace missing: an invalid name, reported as such."""
    for n in DEEP:
        g = "{" * n + "x" + "}" * n
        cases = [
            ("AA " + g, (["AA"], [], [g], [])),
            ("bb" + g + "c DD", (["bb" + g + "c"], [], ["DD"], [])),
            (g + "y, Jr, " + g, ([g], [], [g + "y"], ["Jr"])),
            ("AA bb " + g + " DD", (["AA"], ["bb"], [g, "DD"], [])),  # (a brace group has no case: von ends at 'bb')
        ]
        for name, exp in cases:
            case = {"deep": n, "form": name.replace(g, "<G>")}
            acc.trace()
            acc.case(nontrivial_key=("deep", n, case["form"]))
            acc.count("deep_names")
            try:
                p = parse_single_name_into_parts(name, strict=True)
                got = (p.first, p.von, p.last, p.jr)
            except Exception as ex:
                acc.violation({"oracle": "valid_name_parts", "what": "raised " + type(ex).__name__, "depth": "deep"}, {"case": case, "observed": repr(ex)[:200], "expected": "the parts"}, size=n)
                continue
            acc.step(("deep", n), case["form"], hash(repr(got)))
            if got != exp:
                acc.violation({"oracle": "valid_name_parts", "what": "parts", "depth": "deep"}, {"case": case, "observed": [[w.replace(g, "<G>") for w in part] for part in got], "expected": [[w.replace(g, "<G>") for w in part] for part in exp]}, size=n)
            # one closing brace short: invalid (strict) / an error block through the middleware, never another exception
            bad = name[: name.rindex("}")] + name[name.rindex("}") + 1 :]
            try:
                parse_single_name_into_parts(bad, strict=True)
                acc.violation({"oracle": "unbalanced_name_is_invalid", "depth": "deep"}, {"case": case, "observed": "parsed", "expected": "InvalidNameError"}, size=n)
            except InvalidNameError:
                pass
            except Exception as ex:
                acc.violation({"oracle": "unbalanced_name_is_invalid", "depth": "deep", "exception": type(ex).__name__}, {"case": case, "observed": repr(ex)[:200], "expected": "InvalidNameError"}, size=n)
            try:
                out = SplitNameParts().transform(Library([Entry("a", "k", [Field("author", ["CC DD", bad])])]))
                if [type(b).__name__ for b in out.blocks] != ["MiddlewareErrorBlock"]:
                    acc.violation({"oracle": "invalid_name_becomes_error_block", "depth": "deep"}, {"case": case, "observed": [type(b).__name__ for b in out.blocks], "expected": ["MiddlewareErrorBlock"]}, size=n)
            except Exception as ex:
                acc.violation({"oracle": "error_block_not_exception", "exception": type(ex).__name__, "depth": "deep"}, {"case": case, "observed": repr(ex)[:200], "expected": "MiddlewareErrorBlock"}, size=n)


def run_shard(shard, tier, acc):
    kind = shard[0]
    if kind == "deep":
        check_in_flight(acc)
        return check_deep(acc)
    if kind == "seq":
        for toks in seq_iter(SIGMA, shard[1]):
            check_name("".join(toks), acc, toks)
    elif kind == "main":
        for toks in seq_iter(SIGMA_MAIN, shard[1]):
            check_name("".join(toks), acc, toks)
    elif kind == "words":
        for toks in seq_iter(SIGMA_WORDS, shard[1]):
            check_name("".join(toks), acc, toks)
    elif kind == "patterns":
        # beyond the token bound: every case pattern of n = 5..7 (thorough ..9) plain words (upper / lower / caseless),
        # with no, one or two commas after any words - the von / Last boundary rules on names of middling length
        _, n, first = shard
        rep = ["AA", "bb", "{cc}"]
        for pat in itertools.product(range(3), repeat=n - 1):
            words = [rep[first]] + [rep[i] for i in pat]
            for commas in [()] + [(i,) for i in range(1, n)] + [(i, j) for i in range(1, n) for j in range(i + 1, n)]:
                toks = []
                for k, w in enumerate(words):
                    if k:
                        toks.append(",") if k in commas else None
                        toks.append(" ")
                    toks.append(w)
                acc.count("pattern_names")
                check_name("".join(toks), acc, toks)
    elif kind == "class":
        for toks in seq_iter(SIGMA_CLASS, shard[1]):
            acc.count("case_class_names")
            check_name("".join(toks), acc)  # (no designed case: the transcription alone judges)
    elif kind == "ball":
        for toks in spaces.ball_iter(BASES[shard[1]], SIGMA, shard):
            acc.count("deviation_names")
            check_name("".join(toks), acc, toks)
    elif kind == "leak":
        names = ["AA bb CC", "bb CC, AA", "AA {BB", "Knuth, Jr, Donald", "AA, BB, CC, DD", "{cc} dd EE ff", "AA", "", "AA,", "1b AA bb CC dd"]
        lists = [[a, b] for a in names for b in names]
        inputs = [(lambda l=l: Library([Entry("a", "k", [Field("author", list(l)), Field("editor", [l[1]]), Field("t", "x")])])) for l in lists]
        for ip in (True, False):
            from .. import hostile

            leak.run(lambda: SplitNameParts(allow_inplace_modification=ip), inputs, acc, f"SplitNameParts({ip})", case_of=lambda i: lists[i], poison=hostile.libraries(), judge=None if ip else leak.copy_judge)
        strs = [" and ".join(l) for l in lists]
        inputs = [(lambda v=v: Library([Entry("a", "k", [Field("author", v), Field("t", v)])])) for v in strs]
        leak.run(lambda: SeparateCoAuthors(allow_inplace_modification=False), inputs, acc, "SeparateCoAuthors", case_of=lambda i: strs[i], poison=hostile.libraries(), judge=leak.copy_judge)
    else:
        check_middleware(shard[1], acc)


def finish(acc, tier):
    return {"oracle_disagreements": acc.counters.get("oracle_disagreements", 0), "notes": sorted(acc.notes)[:5]}


def replay(case, acc):
    if "deep" in case:
        return check_deep(acc)
    if "same_instance_in_flight" in case:
        return check_in_flight(acc)
    if "leak" in case:
        return run_shard(("leak", 0), "quick", acc)
    if "name_key_twice" in case:
        return check_key_twice(acc)
    if "name" in case:
        check_name(case["name"], acc, None, case)
    elif case.get("middleware") in ("name_fields override", "field order"):
        check_middleware(2, acc)
    elif "middleware" in case:
        check_middleware(0, acc)
    else:
        check_middleware(1, acc)


def unit_test(case):
    if "name" not in case:
        return "# middleware route; see witness\n"
    return (
        "from bibtexparser.middlewares.names import parse_single_name_into_parts\n"
        f"print(parse_single_name_into_parts({case['name']!r}))\n"
        "# expected parts are stored under witness.expected in this file\n"
    )


def ENV_SHARDS(tier):
    """The broad, cheap families: run again in a fresh interpreter per environment (engine.run_environments)."""
    return [s for s in shards('quick') if s[0] in ("mw", "leak") or (s[0] == "seq" and s[1][0] <= 2)]

