"""C10 — enclosing removal strips exactly one layer; adding back restores or re-encloses (DESIGN 4/C10)."""
import copy
import re

from bibtexparser.library import Library
from bibtexparser.middlewares.enclosing import AddEnclosingMiddleware, RemoveEnclosingMiddleware
from bibtexparser.model import Entry, Field, ParsingFailedBlock, String
from bibtexparser.splitter import Splitter

from .. import dialect, leak, spaces
from ..canon import canon
from ..engine import seq_iter, seq_shards

ID = "C10"
RULE = (
    "values = every field / @string value the real splitter produces from every value token sequence (13-token alphabet) up to the bound in "
    "three contexts, plus a list of special values (lone quote/brace, empty pairs, concatenations, padded) and Python ints / digit strings; "
    "each x {field, @string} x every AddEnclosing option set (default enclosing, reuse, enclose_integers) x metadata {absent, recorded, "
    "recorded for other fields only} x numeric / non-numeric / differently-cased field keys; laws: reference strip + record, restore with "
    "reuse, re-parse of default-enclosed balanced values, integer rule. Non-trivial = value with an enclosing pair or a digit value (distinct)."
)
ASSUMPTIONS = [
    "the re-parse law is restricted as the property states: brace-balanced (dialect escape convention R3) content not ending in a backslash, "
    "without a block-start pattern, and for the quote default without a bare quote outside braces",
    "integer values are Python ints and ASCII digit strings; ints that Python itself refuses to turn into text (more than 4300 digits) cannot be enclosed or written at all and are outside the space",
]
STATIC_SAMPLES = ['"', '{a} # {b}', 1990]

SPECIALS = ['"', "{", "}", "{}", '""', "{a} # {b}", '"a" # "b"', " {a} ", "{{a}}", '"{a}"', '{"a"}', '{a}b', 'a"', '"a', "{a", "a}", "", " ", "a b", '{a"b}', '"a{"}b"', "{\\}}", '"\\""',
            # an at-sign (with a word) separated from a brace group by whitespace other than blank / tab: not a block start
            "@\n{}", "x @y\r\n{z}", "@\x0c{}", "@w\u2028{}", "@\xa0{a}", "@\x0b{}", "e-mail: a@b\n{c}"]
for _d in range(1, 9):  # nesting depth 1..8 next to sibling groups, inside braces and inside quotes
    _n = "".join("{" + chr(98 + i) + " " for i in range(_d)) + "x" + "}" * _d
    SPECIALS += ["{a %s}" % _n, "{%s {h}}" % _n, "{{h} %s}" % _n, "{a %s {h} %s z}" % (_n, _n), '"%s {h}"' % _n, "{%s}" % _n, _n, "%s {h}" % _n]
INTS = [0, 7, 1990, -5, "0", "7", "1990", "007", "-5", "1e3", "12a", "١٢", "½", "Ⅷ", "四", "1½",
        # digits with white space around or inside, a sign, a separator: text, not digit strings (what stripping `{ 2020 }` leaves)
        " 7", "7 ", " 1990 ", "19 90", "7\n", "\t7", "1990\x0c", "\xa07", "+7", "1_000", "1,000",
        # digit strings around and beyond what int() converts (the interpreter's limit is 4300 digits; 640 is the lowest it can be set to)
        "1" * 639, "1" * 641, "1" * 4300, "1" * 4301, "9" * 5000]  # the last four: str.isnumeric() but not digits
KEYS = ["year", "month", "pages", "title", "Year", "volume"]
NUMERIC = {"year", "month", "volume", "number", "pages", "edition", "chapter", "issue"}
OPTIONS = [(d, r, i) for d in ("{", '"') for r in (True, False) for i in (True, False)]
# the two switches given as 0 / 1 (what a configuration file or an environment variable yields): read by their truth value
OPTIONS += [("{", 0, 0), ('"', 1, 0), ("{", 0, 1), ("{", 1, 1)]

CONTEXTS = [("@article{k, f = ", ", g = {z}}"), ("@article{k, f = ", "}"), ("@string{s = ", "}")]


def bounds(tier):
    return {"value_alphabet": spaces.SIGMA_VAL, "max_len": 4 if tier == "quick" else 5, "specials": len(SPECIALS), "ints": INTS, "option_sets": len(OPTIONS), "keys": KEYS}


SIGMA_STRUCT = ["{", "}", '"', "a"]  # delimiter structure of middling length (nesting inside quotes, quotes inside nesting)


def shards(tier):
    return [("construction", 0)] + [("harvest", s) for s in seq_shards(spaces.SIGMA_VAL, 4 if tier == "quick" else 5)] + [("struct", s) for s in seq_shards(SIGMA_STRUCT, 7 if tier == "quick" else 10, min_len=5 if tier == "quick" else 6, prefix_len=2)] + [("specials", 0), ("ints", 0), ("leak", 0), ("casekeys", 0)]


def ref_strip(v):
    v = v.strip()
    if len(v) >= 2 and ((v[0] == "{" and v[-1] == "}") or (v[0] == '"' and v[-1] == '"')):
        return v[1:-1], v[0]
    return v, "no-enclosing"


def enc(value, e):
    if e == "{":
        return "{" + str(value) + "}"
    if e == '"':
        return '"' + str(value) + '"'
    return value


def reparse_ok_domain(w, default):
    """Is the re-parse law claimed for content w with this default enclosing?"""
    if not isinstance(w, str) or w.endswith("\\") or dialect.BLOCK_START.search(w):
        return False
    depth = 0
    for i, c in enumerate(w):
        esc = i > 0 and w[i - 1] == "\\"
        if esc:
            continue
        if c == "{":
            depth += 1
        elif c == "}":
            depth -= 1
            if depth < 0:
                return False
        elif c == '"' and depth == 0 and default == '"':
            return False
    return depth == 0


def check_value(v, acc, seen):
    """All laws for one str value v (as produced by the splitter)."""
    if v in seen:
        return
    seen.add(v)
    content_, delim = ref_strip(v)
    nontrivial = delim != "no-enclosing"
    acc.case(sample=lambda: {"value": v, "expected_strip": [content_, delim]}, nontrivial_key=v if nontrivial else None)
    case = {"value": v}
    acc.outcome((delim, content_ == "", len(v) > 2))
    for kind in ("field", "string"):
        for inplace in (True, False):
            acc.trace()
            if kind == "field":
                blk = Entry("article", "k", [Field("f", v), Field("year", v)])
            else:
                blk = String("s", v)
            lib = Library([blk])
            try:
                out = RemoveEnclosingMiddleware(allow_inplace_modification=inplace).transform(lib)
            except Exception as e:
                acc.violation({"oracle": "remove_no_exception", "exception": type(e).__name__, "kind": kind}, {"case": case, "observed": repr(e), "expected": "no exception"}, size=len(v))
                continue
            b = out.blocks[0]
            if kind == "field":
                got = [(f.key, f.value) for f in b.fields]
                meta = b.parser_metadata.get("removed_enclosing")
                exp = [("f", content_), ("year", content_)]
                expmeta = {"f": delim, "year": delim}
            else:
                got = b.value
                meta = b.parser_metadata.get("removed_enclosing")
                exp = content_
                expmeta = delim
            acc.step(("v", v, kind), "remove", canon(got))
            if got != exp:
                acc.violation(
                    {"oracle": "strip_exactly_one_layer", "kind": kind, "enclosing": delim},
                    {"case": case, "observed": got, "expected": exp},
                    size=len(v),
                )
                continue
            if meta != expmeta:
                acc.violation(
                    {"oracle": "stripped_enclosing_recorded", "kind": kind},
                    {"case": case, "observed": meta, "expected": expmeta},
                    size=len(v),
                )
                continue
            # (b) restore with reuse, whatever the default and the integer option
            for d, _, i in OPTIONS[::2]:
                acc.trace()
                try:
                    back = AddEnclosingMiddleware(reuse_previous_enclosing=True, enclose_integers=i, default_enclosing=d, allow_inplace_modification=inplace).transform(copy.deepcopy(out))
                except Exception as e:
                    acc.violation({"oracle": "add_no_exception", "exception": type(e).__name__, "kind": kind}, {"case": case, "observed": repr(e), "expected": "no exception"}, size=len(v))
                    continue
                bb = back.blocks[0]
                gotb = [f.value for f in bb.fields] if kind == "field" else [bb.value]
                if any(x != v.strip() for x in gotb):
                    acc.violation(
                        {"oracle": "reuse_restores_original", "kind": kind, "enclosing": delim},
                        {"case": case, "observed": gotb, "expected": v.strip(), "options": [d, True, i]},
                        size=len(v),
                    )
                    break
    # (c) re-parse of a default-enclosed balanced content
    for w in {content_, v}:
        for d in ("{", '"'):
            if not reparse_ok_domain(w, d):
                continue
            acc.trace(2)
            lib = Library([Entry("a", "k", [Field("f", w)])])
            try:
                out = AddEnclosingMiddleware(reuse_previous_enclosing=False, enclose_integers=True, default_enclosing=d).transform(lib)
                ev = out.blocks[0].fields[0].value
                text = "@a{k, f = " + ev + "}"
                back = Splitter(text).split().blocks
            except Exception as e:
                acc.raised[type(e).__name__] += 1
                continue
            ok = len(back) == 1 and isinstance(back[0], Entry) and len(back[0].fields) == 1 and back[0].fields[0].key == "f" and ref_strip(back[0].fields[0].value)[0] == w
            acc.step(("w", w, d), "enclose+reparse", ("ok", ok))
            if not ok:
                acc.violation(
                    {"oracle": "default_enclosed_value_reparses", "default": d},
                    {"case": {"value": v, "content": w}, "observed": [dialect.observed_block(b) if hasattr(dialect, "observed_block") else repr(b)[:120] for b in back], "expected": f"one field f with content {w!r}", "text": text},
                    size=len(w),
                )


def check_case_keys(acc):
    """Field keys that differ only in letter case are different fields: each gets its own record, and reuse restores each."""
    import itertools

    vals = ['"A"', "{B}", "c", '"1990"', "{1990}", "1990"]
    # ... and a key held twice (the inner entry of a duplicate-field block, an entry built by a program): every occurrence
    # is a field of its own for the strip; one record per key, so reuse is judged where the occurrences agree on it
    for keys in (("Title", "title"), ("title", "Title", "TITLE"), ("Year", "year"), ("a", "A", "b"), ("note", "note"), ("a", "b", "a")):
        for vs in itertools.product(vals, repeat=len(keys)):
            for inplace in (True, False):
                e = Entry("article", "k", [Field(k, v) for k, v in zip(keys, vs)])
                case = {"case_keys": list(keys), "values": list(vs), "inplace": inplace}
                acc.trace(2)
                acc.case(nontrivial_key=("casekeys", keys, vs, inplace))
                try:
                    out = RemoveEnclosingMiddleware(allow_inplace_modification=inplace).transform(Library([e]))
                    mid = [(f.key, f.value) for f in out.blocks[0].fields]
                    back = AddEnclosingMiddleware(reuse_previous_enclosing=True, enclose_integers=False, default_enclosing="{", allow_inplace_modification=inplace).transform(out)
                except Exception as ex:
                    acc.violation({"oracle": "remove_no_exception", "exception": type(ex).__name__, "kind": "field"}, {"case": case, "observed": repr(ex), "expected": "no exception"})
                    continue
                got = [(f.key, f.value) for f in back.blocks[0].fields]
                exp_mid = [(k, ref_strip(v)[0]) for k, v in zip(keys, vs)]
                acc.step(("casekeys", keys, vs), "remove+add", canon(got))
                if mid != exp_mid:
                    acc.violation({"oracle": "strip_exactly_one_layer", "kind": "field", "enclosing": "mixed"}, {"case": case, "observed": mid, "expected": exp_mid})
                elif len(set(keys)) < len(keys) and any(len({ref_strip(v)[1] for k2, v in zip(keys, vs) if k2 == k}) > 1 for k in keys):
                    acc.count("repeated_key_with_two_enclosings_reuse_not_judged")
                elif got != list(zip(keys, vs)):
                    acc.violation(
                        {"oracle": "reuse_restores_original", "kind": "field", "enclosing": "keys differing in case"},
                        {"case": case, "observed": got, "expected": list(zip(keys, vs))},
                    )


def expected_add(value, key, opts, recorded, numeric_applies):
    d, reuse, encl_int = opts
    if reuse and recorded is not None:
        return enc(value, recorded)
    is_int = (isinstance(value, int) and not isinstance(value, bool)) or (isinstance(value, str) and value.isascii() and value.isdigit())
    if numeric_applies and not encl_int and is_int:
        return value
    return enc(value, d)


def check_add(value, acc):
    """(d) the integer rule and the default/reuse precedence, on fields and strings."""
    for key in KEYS:
        for opts in OPTIONS:
            for meta_mode in ("absent", "recorded{", 'recorded"', "recorded-none", "other-fields-only", "empty-record"):
                for kind in ("field", "string"):
                    if kind == "string" and (key not in (KEYS[0], "year", "volume") or meta_mode in ("other-fields-only", "empty-record")):
                        continue
                    acc.trace()
                    recorded = {"absent": None, "recorded{": "{", 'recorded"': '"', "recorded-none": "no-enclosing", "other-fields-only": None, "empty-record": None}[meta_mode]
                    if kind == "field":
                        e = Entry("article", "k", [Field("other", "o"), Field(key, value)])
                        if meta_mode == "empty-record":
                            e.parser_metadata["removed_enclosing"] = {}  # (the entry had no fields when its enclosings were removed)
                        elif meta_mode == "other-fields-only":
                            e.parser_metadata["removed_enclosing"] = {"other": "{"}
                        elif recorded is not None:
                            e.parser_metadata["removed_enclosing"] = {"other": "{", key: recorded}
                        blk = e
                    else:
                        blk = String("s" if key == KEYS[0] else key, value)
                        if recorded is not None:
                            blk.parser_metadata["removed_enclosing"] = recorded
                    case = {"add": repr(value), "key": key, "options": list(opts), "metadata": meta_mode, "kind": kind}
                    acc.case(nontrivial_key=("add", repr(value), key, opts, meta_mode, kind))
                    try:
                        # the same configuration in two spellings: keywords, positional in the documented order
                        spelling = (KEYS.index(key) + OPTIONS.index(opts)) % 2
                        case["spelling"] = ["keywords", "positional (reuse_previous_enclosing, enclose_integers, default_enclosing, allow_inplace_modification)"][spelling]
                        if spelling == 0:
                            mw_ = AddEnclosingMiddleware(reuse_previous_enclosing=opts[1], enclose_integers=opts[2], default_enclosing=opts[0], allow_inplace_modification=False)
                        else:
                            mw_ = AddEnclosingMiddleware(opts[1], opts[2], opts[0], False)
                        out = mw_.transform(Library([blk]))
                        if out.blocks[0] is blk:
                            acc.violation({"oracle": "copy_mode_respected", "spelling": case["spelling"]}, {"case": case, "observed": "the input block came back", "expected": "a copy"})
                            continue
                    except Exception as ex:
                        acc.violation(
                            {"oracle": "add_no_exception", "exception": type(ex).__name__, "kind": kind},
                            {"case": case, "observed": repr(ex), "expected": "no exception"},
                        )
                        continue
                    b = out.blocks[0]
                    got = b.fields[1].value if kind == "field" else b.value
                    exp = expected_add(value, key, opts, recorded, numeric_applies=(kind == "field" and key in NUMERIC))
                    if isinstance(value, str) and value.isdigit() and not value.isascii() and kind == "field" and key in NUMERIC and not opts[2] and not (opts[1] and recorded is not None):
                        # non-ASCII digit strings: "digit string" is not defined for them by the property
                        acc.count("non_ascii_digits_unconstrained")
                        continue
                    if isinstance(value, int) and value < 0 and not isinstance(exp, str):
                        # a negative int is not a BibTeX number; whether it counts as an "integer value" is not
                        # stated by the property: only the no-exception clause is decided for it
                        acc.count("negative_int_unconstrained")
                        continue
                    acc.step(("add", repr(value), key, meta_mode, kind), ("opts", opts), canon(got))
                    if str(got) != str(exp) or (isinstance(exp, str) != isinstance(got, str)):
                        acc.violation(
                            {"oracle": "enclosing_choice", "kind": kind, "numeric_key": key in NUMERIC, "reuse": opts[1], "enclose_integers": opts[2], "metadata": meta_mode, "int_value": not isinstance(exp, str) or str(value).isdigit()},
                            {"case": case, "observed": got, "expected": exp},
                        )
                    if kind == "field":
                        o = b.fields[0].value
                        if o != (enc("o", "{") if (opts[1] and meta_mode not in ("absent", "empty-record")) else enc("o", opts[0])):
                            acc.violation(
                                {"oracle": "enclosing_choice_other_field", "reuse": opts[1], "metadata": meta_mode},
                                {"case": case, "observed": o, "expected": "recorded enclosing if reuse else default"},
                            )


ORDER_CONFIGS = [("remove", None, None, None)] + [("add", d, r, i) for d in ("{", '"') for r in (True, False) for i in (True, False)]
ORDER_PROBES = ["{a}", '"a"', "a", "1990", "{1990}", '"', "{a} # {b}", "{{a}}", "a\\", 7, " 7"]


def order_behaviour(cfg):
    kind, d, r, i = cfg
    m = RemoveEnclosingMiddleware(allow_inplace_modification=False) if kind == "remove" else AddEnclosingMiddleware(reuse_previous_enclosing=r, enclose_integers=i, default_enclosing=d, allow_inplace_modification=False)
    out = []
    for v in ORDER_PROBES:
        for meta in (None, "{", '"', "no-enclosing"):
            e = Entry("article", "k", [Field("year", v), Field("title", v)])
            s_ = String("s", v)
            if meta is not None:
                e.parser_metadata["removed_enclosing"] = {"year": meta, "title": meta}
                s_.parser_metadata["removed_enclosing"] = meta
            try:
                lib = m.transform(Library([e, s_]))
                out.append([repr(f.value) for f in lib.blocks[0].fields] + [repr(lib.blocks[1].value), repr(sorted(lib.blocks[0].parser_metadata.items(), key=repr))])
            except Exception as ex:  # (an int handed to the remover: outside the property; the same every time all the same)
                out.append(["raised", type(ex).__name__])
    return out

def check_construction_order(acc):
    """mc/order.py: every ordered pair of configurations, against each configuration first in a fresh interpreter."""
    import sys

    from .. import order

    order.run(sys.modules[__name__], acc, group=lambda cfg: cfg[0])


def run_shard(shard, tier, acc):
    kind = shard[0]
    seen = set()
    if kind == "construction":
        return check_construction_order(acc)
    if kind == "harvest":
        for toks in seq_iter(spaces.SIGMA_VAL, shard[1]):
            x = "".join(toks)
            for pre, post in CONTEXTS:
                try:
                    lib = Splitter(pre + x + post).split()
                except Exception:
                    continue
                for b in lib.blocks:
                    if isinstance(b, ParsingFailedBlock):
                        b = b.ignore_error_block
                    if isinstance(b, Entry):
                        for f in b.fields:
                            if isinstance(f.value, str):
                                check_value(f.value, acc, seen)
                    elif isinstance(b, String) and isinstance(b.value, str):
                        check_value(b.value, acc, seen)
    elif kind == "struct":
        for toks in seq_iter(SIGMA_STRUCT, shard[1]):
            acc.count("struct_values")
            check_value("".join(toks), acc, seen)
    elif kind == "casekeys":
        check_case_keys(acc)
    elif kind == "leak":
        vals = SPECIALS + [str(x) for x in INTS] + ["{x}", '"x"', "x", "{X}", '"X"', "{1990}", "1990", '"1990"']

        def mk(v, key, meta):
            def f():
                e = Entry("article", "k", [Field(key, v), Field("other", "{o}")])
                if meta is not None:
                    e.parser_metadata["removed_enclosing"] = {key: meta, "other": "{"}
                return Library([e, String("s", v)])

            return f

        inputs = [mk(v, k, m) for v in vals for k in ("year", "title") for m in (None, "{", '"', "no-enclosing")]
        from .. import hostile

        leak.run(lambda: RemoveEnclosingMiddleware(allow_inplace_modification=False), inputs, acc, "RemoveEnclosing", poison=hostile.libraries(), judge=leak.copy_judge)
        for opts in OPTIONS:
            leak.run(lambda o=opts: AddEnclosingMiddleware(reuse_previous_enclosing=o[1], enclose_integers=o[2], default_enclosing=o[0], allow_inplace_modification=False), inputs, acc, f"AddEnclosing{opts}", poison=hostile.libraries(), judge=leak.copy_judge)
        # history on ONE library: strip once, then add back several times from the same stripped library (copy mode):
        # every add sees the same records, so every result is the same
        for v in vals:
            for d0 in ("{", '"'):
                src = Library([Entry("article", "k", [Field("title", v), Field("year", v)]), String("s", v)])
                stripped = RemoveEnclosingMiddleware(allow_inplace_modification=False).transform(src)
                snap = canon(stripped)
                outs = []
                for reuse in (False, True, True, False, True):
                    acc.trace()
                    acc.case(nontrivial_key=("addhist", v, d0, len(outs)))
                    try:
                        o = AddEnclosingMiddleware(reuse_previous_enclosing=reuse, enclose_integers=False, default_enclosing=d0, allow_inplace_modification=False).transform(stripped)
                        outs.append((reuse, canon(o)))
                    except Exception as ex:
                        acc.violation({"oracle": "add_no_exception", "exception": type(ex).__name__, "kind": "history"}, {"case": {"add_history": v, "default": d0}, "observed": repr(ex), "expected": "no exception"})
                        break
                    if canon(stripped) != snap:
                        acc.violation(
                            {"oracle": "copy_mode_add_leaves_its_input", "reuse": reuse},
                            {"case": {"add_history": v, "default": d0, "call": len(outs)}, "observed": "the stripped library (values or recorded enclosings) changed", "expected": "unchanged"},
                        )
                        break
                else:
                    by = {}
                    for reuse, c in outs:
                        if by.setdefault(reuse, c) != c:
                            acc.violation(
                                {"oracle": "repeated_add_same_result", "reuse": reuse},
                                {"case": {"add_history": v, "default": d0}, "observed": "a later add from the same library differs from an earlier one", "expected": "identical results"},
                            )
                            break
    elif kind == "specials":
        for v in SPECIALS:
            check_value(v, acc, seen)
            check_add(v, acc)
    else:
        for v in INTS:
            check_add(v, acc)


def replay(case, acc):
    if "construction_order" in case:
        return check_construction_order(acc)
    if "leak" in case:
        return run_shard(("leak", 0), "quick", acc)
    if "case_keys" in case:
        return check_case_keys(acc)
    if "value" in case:
        check_value(case["value"], acc, set())
    else:
        for v in INTS + SPECIALS:
            if repr(v) == case.get("add"):
                check_add(v, acc)


def unit_test(case):
    return "# see witness: value / options / metadata mode; laws in mc/checks/c10.py\n# " + repr(case) + "\n"


def ENV_SHARDS(tier):
    """The broad, cheap families: run again in a fresh interpreter per environment (engine.run_environments)."""
    return [s for s in shards('quick') if s[0] in ("specials", "ints", "casekeys")]

