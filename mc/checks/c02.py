"""C02 — well-formed BibTeX yields exactly the blocks, keys, fields and values written (DESIGN 4/C02)."""
import itertools

import bibtexparser
from bibtexparser.splitter import Splitter
from bibtexparser.model import Field

from .. import bigdocs, dialect, spaces
from ..engine import chunks, seq_iter, seq_shards

ID = "C02"
LEAN = True  # cases are distinct by construction; see engine.Acc
RULE = (
    "L1: every value token sequence (13-token alphabet) up to the bound that the reference recogniser accepts as a Value, "
    "in three contexts (middle field, last field, @string); L2: entries = heads x keys x field lists over a 20-value catalogue "
    "x comma forms x whitespace at every gap; L3: every document of <=3 catalogue blocks x gap texts; L4: every splitter-alphabet "
    "token sequence up to the bound accepted by the recogniser. Expected blocks are constructive (the generator knows what it "
    "wrote) and must agree with the recogniser. Non-trivial = accepted document with >=1 @-block (distinct by text)."
)
ASSUMPTIONS = [
    "well-formed = derivable from the dialect grammar of DESIGN 3.1 with restrictions R1-R6",
    "L4 has the reference recogniser as its only oracle (validated by L1-L3 agreement and selftest)",
]
STATIC_SAMPLES = ['@article{k, f = "a{"}b", g = {z}}']


def bounds(tier):
    return {
        "L1_alphabet": spaces.SIGMA_VAL,
        "L1_max_len": 5 if tier == "quick" else 6,
        "L1_core_alphabet": SIGMA_VAL_CORE,
        "L1_core_max_len": 8 if tier == "quick" else 10,
        "L1_struct_alphabet": SIGMA_VAL_STRUCT,
        "L1_struct_max_len": 11 if tier == "quick" else 13,
        "L2_entries": f"{len(HEADS)} heads x {len(KEYS)} keys x field lists (<=2 over {len(VALUES)} values, 3 over {len(VALUES_SMALL)}) x 2 comma forms x {len(WS_FORMS)} whitespace forms + single-gap family",
        "L3_max_blocks": 2 if tier == "quick" else 3,
        "big_documents_entries": bigdocs.SIZES_QUICK if tier == "quick" else bigdocs.SIZES_THOROUGH,
        "L4_alphabet": spaces.SIGMA_DOC,
        "L4_max_len": 5 if tier == "quick" else 6,
    }


# ---------------------------------------------------------------------------------------------
VALUES = [
    "v",  # bare identifier
    "1990",  # number
    "{braced}",
    '"quoted"',
    "{a {nested {deep}} b}",
    "{x, y = z @ w}",  # , = @ inside braces
    '{say "hi"}',  # quote inside braces
    '"a {b} c"',  # braces in quotes
    '"a{"}b"',  # quote in braces in quotes
    'v # "x" # {y}',  # concatenation with spaces
    '"x"#v#{y}',  # concatenation without spaces
    "{}",
    '""',
    "{a\\}b\\{c}",  # escaped delimiters in braces
    '"a\\"b"',  # escaped quote in quotes
    "{l1\nl2\n  l3}",  # multi-line
    '"p, q = r"',  # , = inside quotes
    '"a {b {c} "d, e" f} g"',  # quotes and a comma inside braces two deep inside quotes
    '"x" # "a=b, c" # {d=e, f}',  # = and , inside later parts of a concatenation
    "{a\rb\x0cc\u2028d\x0be\xa0}",  # characters str.splitlines / str.isspace treat specially, inside a value
    '{a} # "b, c" # {d}',  # braces first, then a quoted part holding a comma
    "{mail a@b\n{c} @\x0c{d}}",  # an at-sign and a word, then whitespace other than blank / tab, then a brace: no block start
]
VALUES_SMALL = [VALUES[i] for i in (0, 2, 3, 8, 9, 15, 17, 18, 19)]
HEADS = [("article", ""), ("Article", ""), ("BOOK", " "), ("", ""), ("misc", "\t"), ("in_proc2", "  "),
         ("\u017ftring", ""), ("\ufb06RING", " ")]  # entry types that merely resemble a keyword (long s; the st ligature): lower() keeps them apart
KEYS = ["k", "Doe_2020:x/y", "", "a.b+c", "bs\\ "]  # the last one: a key ending in a backslash (blank before the comma)
FKEYS = ["title", "Author", "x-y", "f4"]
WS_FORMS = ["", " ", "\n", "\r\n", " \n\t "]


def render_entry(head, key, fields, trailing, ws, gaps=None):
    """gaps: optional dict gap_index -> ws override; gap numbering is sequential."""
    typ, hs = head
    g = itertools.count()

    def w():
        i = next(g)
        return gaps.get(i, ws) if gaps is not None else ws

    out = ["@", typ, hs, "{", w(), key, w()]
    if not fields and not trailing:
        out += ["}"]
    else:
        out += [","]
        for n, (fk, fv) in enumerate(fields):
            out += [w(), fk, w(), "=", w(), fv, w()]
            if n < len(fields) - 1 or trailing:
                out += [","]
        out += [w(), "}"]
    text = "".join(out)
    exp = ("entry", typ.lower(), key.strip(), tuple((fk, fv.strip()) for fk, fv in fields))
    return text, exp, next(g)


def field_lists():
    for n in (0, 1, 2):
        for vs in itertools.product(VALUES, repeat=n):
            yield [(FKEYS[i], v) for i, v in enumerate(vs)]
    for vs in itertools.product(VALUES_SMALL, repeat=3):
        yield [(FKEYS[i], v) for i, v in enumerate(vs)]


def l2_cases(head_i):
    head = HEADS[head_i]
    for key in KEYS:
        for fields in field_lists():
            for trailing in (False, True):
                for ws in WS_FORMS:
                    yield render_entry(head, key, fields, trailing, ws)[:2]
    # single-gap family: one gap varied, the others "" or " "
    fields = [("title", "{T}"), ("year", "1990"), ("note", '"n" # v')]
    for trailing in (False, True):
        _, _, ngaps = render_entry(head, "k", fields, trailing, "")
        for gi in range(ngaps):
            for ws in WS_FORMS + ["\n\n", "\t"]:
                for other in ("", " "):
                    yield render_entry(head, "k", fields, trailing, other, gaps={gi: ws})[:2]


# L3 catalogue: (text template with {n} for a position-unique suffix, expected block or None for free text)
def _cat(n):
    return [
        (f"@article{{k{n}, title = {{T{n}}}, year = 19{n}0}}", ("entry", "article", f"k{n}", (("title", f"{{T{n}}}"), ("year", f"19{n}0")))),
        (f"@book{{b{n}}}", ("entry", "book", f"b{n}", ())),
        (f'@Misc {{m{n},\n  note = "a {{"}} b" # s{n},\n}}', ("entry", "misc", f"m{n}", (("note", f'"a {{"}} b" # s{n}'),))),
        (f'@string{{s{n} = "str{n}"}}', ("string", f"s{n}", f'"str{n}"')),
        (f"@STRING {{t{n}=s{n} # {{x}}}}", ("string", f"t{n}", f"s{n} # {{x}}")),
        (f'@preamble{{"\\newcommand{{\\x{n}}}{{y}}"}}', ("preamble", f'"\\newcommand{{\\x{n}}}{{y}}"')),
        (f"@Preamble {{ p{n} }}", ("preamble", f"p{n}")),
        (f"@comment{{c{n} {{nested}} , = \" }}", ("comment", f"c{n} {{nested}} , = \"")),
        (f"@COMMENT\t{{\n multi\n line{n}\n}}", ("comment", f"multi\n line{n}")),
        (f"% free text {n}", None),
        (f'some {{text}} "with" marks, = {n} and an @ sign', None),
        (f"@a{n}{{x{n}, f = {{l1\nl2}}, g = v#\"w\",}}", ("entry", f"a{n}", f"x{n}", (("f", "{l1\nl2}"), ("g", 'v#"w"')))),
        # the same field names as elsewhere in the document, spelled in another case; a value equal to another entry's
        (f"@misc{{c{n}, Title = {{T{n}}}, YEAR = 19{n}0, NOTE = {{T{n}}}}}", ("entry", "misc", f"c{n}", (("Title", f"{{T{n}}}"), ("YEAR", f"19{n}0"), ("NOTE", f"{{T{n}}}")))),
        # texts ending in a backslash (kept apart from the delimiter by a blank), line-boundary characters in a comment
        (f"@comment{{tex {n}\\ }}", ("comment", f"tex {n}\\")),
        (f"@comment{{l1\x0cl2\u2028l3\rl4 {n}}}", ("comment", f"l1\x0cl2\u2028l3\rl4 {n}")),
        # field names of ONE entry that differ only in letter case are different field names
        (f"@misc{{v{n}, Title = {{1}}, title = {{2}}, TITLE = {{3}}, tItle = 4}}", ("entry", "misc", f"v{n}", (("Title", "{1}"), ("title", "{2}"), ("TITLE", "{3}"), ("tItle", "4")))),
        # a preamble and a braced value ending in a backslash (a TeX control space before the delimiter)
        (f"@preamble{{tex {n}\\ }}", ("preamble", f"tex {n}\\")),
        (f"@string{{w{n} = {{x{n}\\ }}}}", ("string", f"w{n}", f"{{x{n}\\ }}")),
        # letters whose lower() / upper() / casefold() differ in length (U+0130, sharp s, a ligature) in free text and in a comment
        (f"\u0130stanbul stra\xdfe {n} \ufb01n", None),
        (f"@comment{{\u0130 \xdf \ufb01 {n}}}", ("comment", f"\u0130 \xdf \ufb01 {n}")),
        # entry types spelled like words the implementation uses for itself
        (f"@entry{{en{n}, a = {{1}}}}", ("entry", "entry", f"en{n}", (("a", "{1}"),))),
        (f"@explicit_comment{{ex{n}}}\n@Block{{bl{n}, handle = 2}}", None) if False else (f"@explicit_comment{{ex{n}}}", ("entry", "explicit_comment", f"ex{n}", ())),
        # a byte-order mark (U+FEFF: not white space) at the start of lines inside a value and a comment
        (f"@misc{{fe{n}, t = {{a\n\ufeffb}}}}", ("entry", "misc", f"fe{n}", (("t", "{a\n\ufeffb}"),))),
        (f"@comment{{\ufeff c{n}\n\ufeff d}}", ("comment", f"\ufeff c{n}\n\ufeff d")),
        # entry types that merely contain or begin with a keyword
        (f"@ReviewComment{{r{n}, a = {{1}}}}", ("entry", "reviewcomment", f"r{n}", (("a", "{1}"),))),
        (f"@Commentary {{y{n}, title = {{T}}}}", ("entry", "commentary", f"y{n}", (("title", "{T}"),))),  # (a biblatex type)
        (f"@stringent{{q{n}, b = 2}}", ("entry", "stringent", f"q{n}", (("b", "2"),))),
        (f"@preambles{{z{n}}}", ("entry", "preambles", f"z{n}", ())),
    ]


NCAT = len(_cat(0))
GAPS = ["", " ", "\n", "\n\n", "text\n", "% c\n"]


def build_doc(block_ids, gaps):
    """gaps has len(block_ids)+1 entries. Returns (text, expected blocks) constructively."""
    pieces = []
    expected = []
    pending = []  # free text since the last @-block

    def flush():
        t = "".join(pending).strip()
        if t:
            expected.append(("implicit", t))
        pending.clear()

    for pos, bid in enumerate(block_ids):
        pieces.append(gaps[pos])
        pending.append(gaps[pos])
        text, exp = _cat(pos)[bid]
        pieces.append(text)
        if exp is None:
            pending.append(text)
        else:
            flush()
            expected.append(exp)
    pieces.append(gaps[len(block_ids)])
    pending.append(gaps[len(block_ids)])
    flush()
    return "".join(pieces), expected


def build_doc_at(block_ids, gaps, offset):
    """Like build_doc, with position-unique key suffixes starting at `offset` (no key shared with another document)."""
    text, exp = [], []
    pending = []

    def flush():
        t = "".join(pending).strip()
        if t:
            exp.append(("implicit", t))
        pending.clear()

    for pos, bid in enumerate(block_ids):
        text.append(gaps[pos])
        pending.append(gaps[pos])
        t, e = _cat(pos + offset)[bid]
        text.append(t)
        if e is None:
            pending.append(t)
        else:
            flush()
            exp.append(e)
    text.append(gaps[len(block_ids)])
    pending.append(gaps[len(block_ids)])
    flush()
    return "".join(text), exp


def l3_cases(first, tier):
    maxb = 2 if tier == "quick" else 3
    for nb in range(1, maxb + 1):
        for rest in itertools.product(range(NCAT), repeat=nb - 1):
            ids = (first,) + rest
            if nb <= 2:
                gap_sets = itertools.product(GAPS, repeat=nb + 1)
            else:
                gap_sets = [(g,) * (nb + 1) for g in GAPS] + [("", g, g2, "\n") for g in GAPS for g2 in GAPS]
            for gaps in gap_sets:
                yield build_doc(ids, gaps)


CONTEXTS = [
    ("mid", "@article{k, f = ", ", g = {z}}", lambda v: [("entry", "article", "k", (("f", v), ("g", "{z}")))]),
    ("last", "@article{k, f = ", "}", lambda v: [("entry", "article", "k", (("f", v),))]),
    ("string", "@string{s = ", "}", lambda v: [("string", "s", v)]),
]


# deeper over the characters that drive the value scanner (nesting of braces and quotes)
SIGMA_VAL_CORE = ["a", "{", "}", '"', ",", " "]
# only the four characters the value scanner branches on: nesting of braces and quotes to depth 3-4
SIGMA_VAL_STRUCT = ["{", "}", '"', ","]


def shards(tier):
    out = [("L1", s) for s in seq_shards(spaces.SIGMA_VAL, 5 if tier == "quick" else 6)]
    out += [("L1core", s) for s in seq_shards(SIGMA_VAL_CORE, 8 if tier == "quick" else 10, min_len=6 if tier == "quick" else 7, prefix_len=3)]
    out += [("L1struct", s) for s in seq_shards(SIGMA_VAL_STRUCT, 11 if tier == "quick" else 13, min_len=9 if tier == "quick" else 11, prefix_len=4)]
    out += [("L2", i) for i in range(len(HEADS))]
    out += [("L3", i) for i in range(NCAT)]
    out += [("L3pair", i) for i in range(NCAT)]
    out += [("L3remove", i) for i in range(NCAT)]
    out += [("optimised", 0), ("windows", 0), ("deep", 0)] + [("idents", i) for i in range(4)]
    out += [("L4", s) for s in seq_shards(spaces.SIGMA_DOC, 5 if tier == "quick" else 6)]
    out += [("big", n, v) for n in (bigdocs.SIZES_QUICK if tier == "quick" else bigdocs.SIZES_THOROUGH) for v in (0, 1)]
    return out


# ---------------------------------------------------------------------------------------------
def _diff(exp, obs):
    """(index, what) of the first difference."""
    if len(exp) != len(obs):
        kinds_o = [b[0] for b in obs]
        return min(len(exp), len(obs)), "block_count" + ("_with_failed" if "failed" in kinds_o else "")
    for i, (e, o) in enumerate(zip(exp, obs)):
        if e == o:
            continue
        if e[0] != o[0]:
            return i, f"class:{e[0]}->{o[0]}"
        if e[0] == "entry":
            if e[1] != o[1]:
                return i, "entry_type"
            if e[2] != o[2]:
                return i, "entry_key"
            if [k for k, _ in e[3]] != [k for k, _ in o[3]]:
                return i, "field_keys"
            return i, "field_value"
        if e[0] == "string":
            return i, "string_key" if e[1] != o[1] else "string_value"
        return i, e[0] + "_text"
    return -1, "?"


def judge(text, expected, acc, level, case=None):
    case = case if case is not None else {"text": text, "level": level}
    # history: an earlier call on a truncated (hence usually malformed) version of the document, which ends at EOF
    # in whatever scanner state it reaches, must leave nothing behind
    try:
        Splitter(text[: (2 * len(text)) // 3]).split()
        # ... and an earlier parse whose entries (every syntactic form) the caller then edited
        for e_ in bibtexparser.parse_string("@hist{h1}\n@hist{h2,}\n@hist{h3, a = {1}}\n@string{hs = {v}}", parse_stack=[]).entries:
            e_.set_field(Field("added_by_the_caller", "{later}"))
            e_.fields.append(Field("appended_by_the_caller", "{later}"))
    except Exception:
        pass
    for route in ("split", "parse_string"):
        acc.trace()
        try:
            lib = Splitter(text).split() if route == "split" else bibtexparser.parse_string(text, parse_stack=[])
        except Exception as e:
            acc.exception(e, case, route, size=len(text))
            return False
        obs = dialect.observed(lib)
        if route == "split":
            acc.step(("text", text), "split", tuple(obs))
            acc.outcome(tuple(b[0] for b in obs))
        if obs != expected:
            i, what = _diff(expected, obs)
            acc.violation(
                {"oracle": "blocks_as_written", "what": what, "level": level},
                {"case": case, "observed": obs, "expected": expected, "route": route, "first_difference_at_block": i},
                size=len(text),
            )
            return False
    # the default stack (what a plain parse_string(text) gives): the same blocks with the same types, keys and field
    # keys in the same order (values are then stripped / resolved: C10 and C11 decide those)
    shape = lambda bs: [(b[0], b[1], b[2], tuple(k for k, _ in b[3])) if b[0] == "entry" else ((b[0], b[1]) if b[0] == "string" else b) for b in bs]
    acc.trace()
    try:
        obs = dialect.observed(bibtexparser.parse_string(text))
    except Exception as e:
        acc.exception(e, case, "parse_string (default stack)", size=len(text))
        return False
    if shape(obs) != shape(expected):
        se, so = shape(expected), shape(obs)
        i = next((n for n, (x, y) in enumerate(zip(se, so)) if x != y), min(len(se), len(so)))
        what = "block_count" if len(se) != len(so) else (f"class:{se[i][0]}->{so[i][0]}" if se[i][0] != so[i][0] else se[i][0] + "_shape")
        acc.violation(
            {"oracle": "blocks_as_written", "what": what, "level": level, "route": "default stack"},
            {"case": case, "observed": obs, "expected": expected, "route": "parse_string(text)", "first_difference_at_block": i},
            size=len(text),
        )
        return False
    return True


def check_doc(text, expected, acc, level):
    """Two-oracle rule: constructive expectation and recogniser must agree, else it is my bug."""
    rec = dialect.recognise(text)
    if rec is None or rec != expected:
        acc.count("oracle_disagreements")
        if acc.counters["oracle_disagreements"] <= 3:
            acc.notes.add(f"oracle disagreement {level}: {text!r} rec={rec!r} exp={expected!r}")
        acc.case()
        return
    nontrivial = any(b[0] != "implicit" for b in expected)
    acc.case(sample=lambda: {"level": level, "text": text, "expected": expected}, nontrivial_key=text if nontrivial else None)
    judge(text, expected, acc, level)


DEPTHS = [10, 100, 500, 990, 1000, 1010, 2000, 5000]


def check_deep_nesting(acc):
    """'... nesting of braces ...': groups nested n deep (around and beyond the interpreter's default recursion limit)
    in a braced value, a quoted value, a concatenation, @string, @preamble and @comment; blocks as written."""
    for n in DEPTHS:
        g = "{" * n + "x" + "}" * n
        docs = [
            (f"@a{{k, t = {g}, u = 1}}", [("entry", "a", "k", (("t", g), ("u", "1")))]),
            (f'@a{{k, t = "{g}"}}\n@b{{j}}', [("entry", "a", "k", (("t", f'"{g}"'),)), ("entry", "b", "j", ())]),
            (f'@a{{k, t = s # {g} # "y"}}', [("entry", "a", "k", (("t", f's # {g} # "y"'),))]),
            (f"@string{{s = {g}}}\n@b{{j}}", [("string", "s", g), ("entry", "b", "j", ())]),
            (f"@preamble{{{g}}}\n@b{{j}}", [("preamble", g), ("entry", "b", "j", ())]),
            (f"@comment{{{g} c}}\n@b{{j}}", [("comment", g + " c"), ("entry", "b", "j", ())]),
        ]
        for text, expected in docs:
            acc.count("deep_nesting_documents")
            acc.case(nontrivial_key=("deep", n, text[:12]))
            judge(text, expected, acc, "deep nesting", case={"deep_nesting": n, "text_head": text[:14], "text": text if n <= 100 else None, "level": "deep nesting"})


def check_window_boundaries(acc):
    """A block header lying across offset W (W = 4096 .. 2**20, the sizes a chunked scan would use), at every position
    of the header: the text before is one long comment, the blocks after it are as written."""
    for W in (4096, 8192, 65536, 1 << 20):
        for k in range(0, 11):
            for header, exp in (("@article{", ("entry", "article", "wk", (("t", "{v}"),))), ("@Book  {", ("entry", "book", "wk", (("t", "{v}"),)))):
                pre = "% " + "x" * 77 + "\n"
                n = (W - k - 1) // len(pre)
                comment = pre * n
                comment += "%" + "y" * (W - k - len(comment) - 2) + "\n"  # the header starts at offset W - k
                text = comment + header + "wk, t = {v}}\n@misc{after, u = 7}\n"
                case = {"window": W, "header_starts_before_the_boundary_by": k, "header": header}
                acc.trace(2)
                acc.case(nontrivial_key=("window", W, k, header))
                assert text.index(header) == W - k
                expected = [("implicit", comment.strip()), exp, ("entry", "misc", "after", (("u", "7"),))]
                for route in ("split", "parse_string"):
                    try:
                        lib = Splitter(text).split() if route == "split" else bibtexparser.parse_string(text, parse_stack=[])
                    except Exception as e:
                        acc.exception(e, case, route, size=W)
                        break
                    obs = dialect.observed(lib)
                    if obs != expected:
                        i, what = _diff(expected, obs)
                        acc.violation({"oracle": "blocks_as_written", "what": what, "level": "window boundary"}, {"case": case, "observed": [b[:3] for b in obs[:4]], "expected": [b[:3] for b in expected], "route": route}, size=W)
                        break


_OPT_SCRIPT = """
import sys, json
sys.path.insert(0, sys.argv[1])
import logging; logging.disable(logging.CRITICAL)
import bibtexparser
assert bibtexparser.__file__.startswith(sys.argv[1]) or True
text = sys.stdin.read()
out = []
for stack in ({}, {"parse_stack": []}):
    lib = bibtexparser.parse_string(text, **stack)
    out.append([[type(b).__name__, getattr(b, "key", None), getattr(b, "entry_type", None), [f.key for f in getattr(b, "fields", [])]] for b in lib.blocks])
    out.append(bibtexparser.write_string(lib))
print(json.dumps(out))
"""


def check_optimised_interpreter(acc):
    """The same library under `python -O` (assert statements stripped, __debug__ false): one interpreter start per run,
    the whole L3 catalogue in one document, parsed with both stacks and written; compared with this process."""
    import json
    import subprocess
    import sys

    from .. import REPO

    text = "\n".join(t for t, _ in _cat(0)) + "\n"
    case = {"optimised_interpreter": "-O", "text": text}
    acc.trace()
    acc.case(nontrivial_key=("python -O",))

    def observe():
        out = []
        for stack in ({}, {"parse_stack": []}):
            lib = bibtexparser.parse_string(text, **stack)
            out.append([[type(b).__name__, getattr(b, "key", None), getattr(b, "entry_type", None), [f.key for f in getattr(b, "fields", [])]] for b in lib.blocks])
            out.append(bibtexparser.write_string(lib))
        return out

    for flags in (["-O"], ["-OO"]):
        try:
            r = subprocess.run([sys.executable] + flags + ["-c", _OPT_SCRIPT, REPO], input=text, capture_output=True, text=True, timeout=300)
            got = json.loads(r.stdout) if r.returncode == 0 else ("raised", r.stderr.strip().splitlines()[-1][:200] if r.stderr.strip() else r.returncode)
        except Exception as e:
            acc.harness_error(f"python {flags}: {e!r}")
            continue
        exp = json.loads(json.dumps(observe()))
        acc.step(("python", tuple(flags)), "parse+write", hash(repr(got)))
        if got != exp:
            acc.violation(
                {"oracle": "blocks_as_written", "what": "differs under an optimised interpreter", "level": "L3", "route": "python " + " ".join(flags)},
                {"case": dict(case, flags=flags), "observed": repr(got)[:400], "expected": repr(exp)[:400]},
            )


def run_shard(shard, tier, acc):
    kind = shard[0]
    if kind == "optimised":
        return check_optimised_interpreter(acc)
    if kind == "windows":
        return check_window_boundaries(acc)
    if kind == "deep":
        return check_deep_nesting(acc)
    if kind == "idents":
        # words the implementation uses for itself, as entry type / key / field key / string name / bare value
        for w in spaces.implementation_identifiers()[shard[1] :: 4]:
            if w.lower() in ("comment", "preamble", "string"):
                continue
            check_doc(f"@{w}{{{w}, {w} = {w}, x{w} = {{{w}}}}}", [("entry", w.lower(), w, ((w, w), ("x" + w, "{" + w + "}")))], acc, "idents")
            check_doc(f'@string{{{w} = "{w}"}}\n@{w.upper()} {{k, f = {w}}}', [("string", w, f'"{w}"'), ("entry", w.lower(), "k", (("f", w),))], acc, "idents")
        return
    if kind == "L1":
        for toks in seq_iter(spaces.SIGMA_VAL, shard[1]):
            v = "".join(toks)
            if not dialect.is_value(v):
                acc.count("L1_rejected_values")
                continue
            acc.count("L1_wellformed_values")
            for name, pre, post, exp in CONTEXTS:
                check_doc(pre + v + post, exp(v.strip()), acc, "L1:" + name)
    elif kind == "L1core":
        for toks in seq_iter(SIGMA_VAL_CORE, shard[1]):
            v = "".join(toks)
            if not dialect.is_value(v):
                acc.count("L1core_rejected_values")
                continue
            acc.count("L1core_wellformed_values")
            for name, pre, post, exp in CONTEXTS:
                check_doc(pre + v + post, exp(v.strip()), acc, "L1core:" + name)
    elif kind == "L1struct":
        for toks in seq_iter(SIGMA_VAL_STRUCT, shard[1]):
            v = "".join(toks)
            if not dialect.is_value(v):
                acc.count("L1struct_rejected_values")
                continue
            acc.count("L1struct_wellformed_values")
            for name, pre, post, exp in CONTEXTS:
                check_doc(pre + v + post, exp(v.strip()), acc, "L1struct:" + name)
    elif kind == "L2":
        for text, exp in l2_cases(shard[1]):
            acc.count("L2_entries")
            check_doc(text, [exp], acc, "L2")
    elif kind == "L3":
        for text, exp in l3_cases(shard[1], tier):
            acc.count("L3_documents")
            check_doc(text, exp, acc, "L3")
    elif kind == "big":
        text, exp = bigdocs.document(shard[1], shard[2])
        acc.count("big_documents")
        check_doc(text, exp, acc, f"big:{shard[1]}")
    elif kind == "L3remove":
        # remove every keyed block of a parsed document through an EQUAL COPY of it (second parse of the same text),
        # then parse the document into the same library again: as into a new library
        for gap in GAPS[:3]:
            for second in range(NCAT):
                ta, ea = build_doc((shard[1], second), (gap, "\n", "\n"))
                acc.count("L3_remove_cases")
                acc.trace(3)
                acc.case(nontrivial_key=("remove", shard[1], second, gap))
                case = {"text": ta, "level": "L3remove"}
                try:
                    lib = bibtexparser.parse_string(ta, parse_stack=[])
                    twin = bibtexparser.parse_string(ta, parse_stack=[])
                    for b in twin.blocks:
                        lib.remove(b)
                    lib = bibtexparser.parse_string(ta, parse_stack=[], library=lib)
                except Exception as e:
                    acc.exception(e, case, "remove(equal copy) / parse_string(library=...)")
                    continue
                obs = dialect.observed(lib)
                if obs != ea:
                    i, what = _diff(ea, obs)
                    acc.violation(
                        {"oracle": "blocks_as_written", "what": what, "level": "L3remove"},
                        {"case": case, "observed": obs, "expected": ea, "first_difference_at_block": i},
                        size=len(ta),
                    )
    elif kind == "L3pair":
        # two documents parsed one after the other INTO THE SAME LIBRARY: the library holds the blocks of both
        for b_id in range(NCAT):
            for ga in GAPS:
                for gb in GAPS:
                    ta, ea = build_doc((shard[1],), (ga, "\n"))
                    tb, eb = build_doc_at((b_id,), (gb, "\n"), 5)
                    acc.count("L3_pairs")
                    acc.trace(2)
                    acc.case(nontrivial_key=("pair", shard[1], b_id, ga, gb))
                    case = {"text": ta, "second_text": tb, "level": "L3pair"}
                    try:
                        lib = bibtexparser.parse_string(ta, parse_stack=[])
                        lib = bibtexparser.parse_string(tb, parse_stack=[], library=lib)
                    except Exception as e:
                        acc.exception(e, case, "parse_string(library=...)")
                        continue
                    obs = dialect.observed(lib)
                    if obs != ea + eb:
                        i, what = _diff(ea + eb, obs)
                        acc.violation(
                            {"oracle": "blocks_as_written", "what": what, "level": "L3pair"},
                            {"case": case, "observed": obs, "expected": ea + eb, "first_difference_at_block": i},
                            size=len(ta) + len(tb),
                        )
    elif kind == "L4":
        for toks in seq_iter(spaces.SIGMA_DOC, shard[1]):
            text = "".join(toks)
            rec = dialect.recognise(text)
            if rec is None or not dialect.unique_keys(rec):
                acc.count("L4_rejected")
                continue
            acc.count("L4_wellformed")
            nontrivial = any(b[0] != "implicit" for b in rec)
            acc.case(sample=lambda: {"level": "L4", "text": text, "expected": rec}, nontrivial_key=text if nontrivial else None)
            judge(text, rec, acc, "L4")


def finish(acc, tier):
    return {"oracle_disagreements": acc.counters.get("oracle_disagreements", 0), "notes": sorted(acc.notes)[:5]}


def replay(case, acc):
    if "optimised_interpreter" in case:
        return check_optimised_interpreter(acc)
    if "window" in case:
        return check_window_boundaries(acc)
    if "deep_nesting" in case:
        return check_deep_nesting(acc)
    text = case["text"]
    if case.get("level") == "L3remove":
        lib = bibtexparser.parse_string(text, parse_stack=[])
        for b in bibtexparser.parse_string(text, parse_stack=[]).blocks:
            lib.remove(b)
        lib = bibtexparser.parse_string(text, parse_stack=[], library=lib)
        exp = dialect.recognise(text) or []
        if dialect.observed(lib) != exp:
            acc.violation({"oracle": "blocks_as_written", "what": "remove", "level": "L3remove"}, {"case": case, "observed": dialect.observed(lib), "expected": exp})
        return
    if "second_text" in case:
        lib = bibtexparser.parse_string(text, parse_stack=[])
        lib = bibtexparser.parse_string(case["second_text"], parse_stack=[], library=lib)
        exp = (dialect.recognise(text) or []) + (dialect.recognise(case["second_text"]) or [])
        if dialect.observed(lib) != exp:
            acc.violation({"oracle": "blocks_as_written", "what": "pair", "level": "L3pair"}, {"case": case, "observed": dialect.observed(lib), "expected": exp})
        return
    rec = dialect.recognise(text)
    if rec is None:
        acc.count("replay_not_wellformed")
        return
    judge(text, rec, acc, case.get("level", "replay"), case)


def unit_test(case):
    return (
        "import bibtexparser\n"
        f"text = {case['text']!r}\n"
        "lib = bibtexparser.parse_string(text, parse_stack=[])\n"
        "assert not lib.failed_blocks, lib.failed_blocks\n"
        "print([(type(b).__name__, getattr(b, 'key', None), [(f.key, f.value) for f in getattr(b, 'fields', [])]) for b in lib.blocks])\n"
        "# compare with the expected block list stored under witness.expected in this file\n"
    )


def ENV_SHARDS(tier):
    """The broad, cheap families: run again in a fresh interpreter per environment (engine.run_environments)."""
    return [s for s in shards('quick') if s[0] in ("L3pair", "L3remove", "idents", "big", "L1")]

