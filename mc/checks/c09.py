"""C09 — duplicate keys are never merged or dropped: first wins, the rest are flagged (DESIGN 4/C09)."""
import itertools

import bibtexparser
from bibtexparser.model import (
    DuplicateBlockKeyBlock,
    DuplicateFieldKeyBlock,
    Entry,
    ImplicitComment,
    ParsingFailedBlock,
    String,
)

from ..canon import canon

ID = "C09"
RULE = (
    "every document of <=4 (quick) / <=5 (thorough) blocks over a 27-block catalogue whose entry, string and field keys come from a small pool "
    "(entries a/a/b with different types and fields, an entry repeating field keys x,x,y,x, strings s/s/t, two strings named like an entry key, "
    "a free-text comment), parsed with the default stack and with parse_stack=[]; compared with a constructive reference walk (first holder "
    "live, later ones wrapped in place). Non-trivial = document with at least one key collision (distinct by document)."
)
ASSUMPTIONS = ["documents with two adjacent free-text comments are skipped (they are one comment by the grammar)"]
STATIC_SAMPLES = ["@article{a, t = {1}}\n@book{a, u = {2}, v = {3}}"]

CAT = [
    ("entry", "article", "a", [("t", "{1}")], "@article{a, t = {1}}"),
    ("entry", "book", "a", [("u", "{2}"), ("v", "{3}")], "@book{a, u = {2}, v = {3}}"),
    ("entry", "misc", "b", [("w", "{4}")], "@misc{b, w = {4}}"),
    ("dupfield", "x", "a", [("x", "{1}"), ("x", "{2}"), ("y", "{3}"), ("x", "{4}")], "@x{a, x = {1}, x = {2}, y = {3}, x = {4}}"),
    ("string", "s", '"one"', '@string{s = "one"}'),
    ("string", "s", "{two}", "@string{s = {two}}"),
    ("string", "t", '"three"', '@string{t = "three"}'),
    ("string", "a", '"named like an entry"', '@string{a = "named like an entry"}'),
    ("comment", "free comment", "free comment"),
    ("string", "a", "{second a}", "@string{a = {second a}}"),
    # every syntactic form of an entry: no comma and no fields (RefTeX), trailing comma
    ("entry", "misc", "b", [], "@misc{b}"),
    ("entry", "report", "c", [("z", "{9}")], "@report{c, z = {9},}"),
    # blanks other than space / tab / CR / LF around keys (str.strip removes them all): still key a, field key x
    ("entry", "conf", "a", [("t", "{5}")], "@conf{\xa0a\u2003, t\xa0= {5}}"),
    ("dupfield", "y", "b", [("x", "{1}"), ("x", "{2}")], "@y{b, x = {1},\u3000x\x0c= {2}}"),
    ("string", "s", "{nbsp}", "@string{\xa0s\xa0= {nbsp}}"),
    # a key held twice by entries that refer to a string (what the first holder shows after resolution is what the wrapper exposes)
    ("entry", "misc", "r", [("t", "s"), ("u", "{s}")], "@misc{r, t = s, u = {s}}"),
    ("entry", "book", "r", [("v", "t")], "@book{r, v = t}"),
    # keys holding characters that mean something to %-formats, templates and regular expressions (DOI-like keys)
    ("entry", "misc", "10.1%2F%s(0)", [("t", "{6}")], "@misc{10.1%2F%s(0), t = {6}}"),
    ("entry", "book", "10.1%2F%s(0)", [("u", "{7}")], "@book{10.1%2F%s(0), u = {7}}"),
    ("string", "p%s", "{pct}", "@string{p%s = {pct}}"),
    ("string", "p%s", '"again"', '@string{p%s = "again"}'),
    ("dupfield", "z", "e", [("", "1"), ("", "2")], "@z{e, = 1, = 2}"),  # the empty field key repeated
    ("dupfield", "z", "f", [("a%d", "1"), ("a%d", "2")], "@z{f, a%d = 1, a%d = 2}"),
    # entry keys and string keys that differ from others only in letter case are keys of their own: live, nothing flagged
    ("entry", "misc", "A", [("t", "{8}")], "@misc{A, t = {8}}"),
    ("string", "S", "{upper}", "@string{S = {upper}}"),
    # field keys that differ only in letter case are different keys: a live entry, nothing repeated
    ("entry", "misc", "d", [("X", "{1}"), ("x", "{2}"), ("y", "{3}")], "@misc{d, X = {1}, x = {2}, y = {3}}"),
]


from bibtexparser.middlewares.middleware import BlockMiddleware


class CopyNop(BlockMiddleware):
    """A user block middleware in copy mode that changes nothing: every block is copied and the library rebuilt."""

    def __init__(self):
        super().__init__(allow_inplace_modification=False)


def check_wide(acc, tier):
    """Entries of middling width: n = 1 .. 40 and around 64 .. 256 (thorough .. 4096) distinct field keys, then key number i once more (at the
    end, or right after its first occurrence), for every i; a clean entry with the same entry key follows. The first is a
    duplicate-field block naming exactly that key and keeping all n + 1 fields; its key is not live, so the second is."""
    # every width up to 40 with every repeated position; then the widths around the powers of two a container would switch
    # at, with the repeated key first occurring at the positions around those thresholds (and at both ends)
    widths = list(range(1, 41)) + [63, 64, 65, 66, 127, 128, 129, 130, 255, 256, 257, 258] + ([1023, 1024, 1025, 1026, 4095, 4096, 4097, 4098] if tier == "thorough" else [])
    near = sorted({0, 1, 2} | {p + d for p in (16, 32, 64, 128, 256, 1024, 4096) for d in (-2, -1, 0, 1, 2)})
    for n in widths:
        keys = [f"f{i:02d}" for i in range(n)]
        for i in range(n) if n <= 40 else sorted({x for x in near if x < n} | {n - 2, n - 1}):
            for where in ("end", "next"):
                fields = [(k, "{%d}" % j) for j, k in enumerate(keys)]
                rep = (keys[i], "{again}")
                fields = fields + [rep] if where == "end" else fields[: i + 1] + [rep] + fields[i + 1 :]
                text = "@a{w, " + ", ".join(f"{k} = {v}" for k, v in fields) + "}\n@b{w, z = {1}}"
                case = {"wide": n, "repeated": i, "where": where}
                for stack in ("default", "none"):
                    acc.trace()
                    acc.case(nontrivial_key=("wide", n, i, where, stack))
                    try:
                        lib = bibtexparser.parse_string(text) if stack == "default" else bibtexparser.parse_string(text, parse_stack=[])
                    except Exception as e:
                        acc.exception(e, case, "parse_string", size=n)
                        continue
                    b = lib.blocks
                    acc.step(("wide", n, i, where), stack, tuple(type(x).__name__ for x in b))
                    inner = b[0].ignore_error_block if len(b) == 2 and isinstance(b[0], DuplicateFieldKeyBlock) else None
                    ok = (
                        inner is not None
                        and [f.key for f in inner.fields] == [k for k, _ in fields]
                        and set(b[0].duplicate_keys) == {keys[i]}
                        and type(b[1]) is Entry
                        and b[1].entry_type == "b"
                        and list(lib.entries_dict) == ["w"]
                        and lib.entries_dict["w"] is b[1]
                    )
                    if not ok:
                        acc.violation(
                            {"oracle": "repeated_field_key_is_failed_block", "stack": stack, "width": "middling"},
                            {"case": case, "text": text, "observed": [type(x).__name__ for x in b], "expected": ["DuplicateFieldKeyBlock", "Entry"]},
                            size=n,
                        )


def bounds(tier):
    return {"catalogue": [c[-1] for c in CAT], "max_blocks": 4 if tier == "quick" else 5, "stacks": ["default", "parse_stack=[]"], "separators": ["\\n", " (one line)"]}


def shards(tier):
    return [("first", i, j) for i in range(len(CAT)) for j in range(len(CAT))] + [("short", 0), ("wide", 0), ("keys_changed", 0)] + [("two_docs", k) for k in range(32)]


def strip1(v):
    if len(v) >= 2 and ((v[0] == "{" and v[-1] == "}") or (v[0] == '"' and v[-1] == '"')):
        return v[1:-1]
    return v


def check_doc(ids, sep, acc, case=None):
    if any(CAT[a][0] == "comment" and CAT[b][0] == "comment" for a, b in zip(ids, ids[1:])):
        return
    text = sep.join(CAT[i][-1] for i in ids)
    case = case if case is not None else {"ids": list(ids), "sep": sep}
    kinds = [CAT[i][0] for i in ids]
    ekeys = [CAT[i][2] for i in ids if CAT[i][0] == "entry"]
    skeys = [CAT[i][1] for i in ids if CAT[i][0] == "string"]
    collision = len(ekeys) != len(set(ekeys)) or len(skeys) != len(set(skeys)) or "dupfield" in kinds
    acc.case(sample=lambda: {"text": text}, nontrivial_key=text if collision else None)
    first_string = {}
    for i_ in ids:
        if CAT[i_][0] == "string" and CAT[i_][1] not in first_string:
            first_string[CAT[i_][1]] = CAT[i_][2]
    for stack in ("default", "none", "copy", "copy-resolve") if len(ids) <= 3 else ("default", "none"):
        acc.trace()
        try:
            if stack == "copy-resolve":
                from bibtexparser.middlewares import ResolveStringReferencesMiddleware

                lib = bibtexparser.parse_string(text, parse_stack=[ResolveStringReferencesMiddleware(allow_inplace_modification=False)])
            else:
                lib = bibtexparser.parse_string(text) if stack == "default" else bibtexparser.parse_string(text, parse_stack=[] if stack == "none" else [CopyNop()])
        except Exception as e:
            acc.exception(e, case, "parse_string", size=len(ids))
            continue
        blocks = lib.blocks
        acc.step(("doc", text), ("parse", stack), tuple(type(b).__name__ for b in blocks))
        acc.outcome(tuple(type(b).__name__ for b in blocks))

        def bad(oracle, i, obs, exp, **sig):
            s = {"oracle": oracle, "stack": stack}
            s.update(sig)
            acc.violation(s, {"case": case, "text": text, "block_index": i, "observed": obs, "expected": exp}, size=len(ids))

        if len(blocks) != len(ids):
            bad("one_block_per_source_block", None, [type(b).__name__ for b in blocks], len(ids))
            continue
        live_e, live_s = {}, {}
        ok = True
        for n, (i, b) in enumerate(zip(ids, blocks)):
            c = CAT[i]
            # (a bare value naming a defined string holds the first definition's text where a resolver ran)
            if stack == "default":
                val = lambda v: strip1(first_string.get(v, v))
            elif stack == "copy-resolve":
                val = lambda v: first_string.get(v, v)
            else:
                val = lambda v: v
            if c[0] == "comment":
                if not isinstance(b, ImplicitComment) or b.comment != c[1]:
                    bad("comment_kept", n, repr(b), c[1])
                    ok = False
                    break
            elif c[0] == "dupfield":
                inner = b.ignore_error_block if isinstance(b, DuplicateFieldKeyBlock) else None
                if inner is None:
                    bad("repeated_field_key_is_failed_block", n, type(b).__name__, "DuplicateFieldKeyBlock")
                    ok = False
                    break
                if not isinstance(inner, Entry) or [(f.key, f.value) for f in inner.fields] != c[3] or (inner.entry_type, inner.key) != (c[1], c[2]) or inner.raw != c[-1] or b.raw != c[-1]:
                    bad("duplicate_field_block_keeps_every_occurrence", n, repr(inner), c[3])
                    ok = False
                    break
                want = {k for k, _ in c[3] if [k2 for k2, _ in c[3]].count(k) > 1}
                if set(b.duplicate_keys) != want:
                    bad("duplicate_field_keys_named", n, sorted(b.duplicate_keys), sorted(want))
                    ok = False
                    break
            else:
                is_entry = c[0] == "entry"
                key = c[2] if is_entry else c[1]
                live = live_e if is_entry else live_s
                cls = Entry if is_entry else String
                if key not in live:
                    good = type(b) is cls and b.key == key
                    if good and is_entry:
                        good = b.entry_type == c[1] and [(f.key, f.value) for f in b.fields] == [(k, val(v)) for k, v in c[3]]
                    if good and not is_entry:
                        good = b.value == val(c[2])
                    if not good:
                        bad("first_holder_is_live", n, repr(b), c[-1], kind=c[0], wrapped=isinstance(b, ParsingFailedBlock))
                        ok = False
                        break
                    live[key] = b
                else:
                    if not isinstance(b, DuplicateBlockKeyBlock):
                        bad("later_holder_is_flagged", n, type(b).__name__, "DuplicateBlockKeyBlock", kind=c[0])
                        ok = False
                        break
                    first = live[key]
                    prev = b.previous_block
                    if b.key != key or not (prev is first or (type(prev) is type(first) and canon(prev) == canon(first))):
                        bad("wrapper_exposes_key_and_first_block", n, [b.key, repr(prev)], [key, repr(first)], kind=c[0], previous_is=type(prev).__name__)
                        ok = False
                        break
                    if stack == "default" and prev is not first:
                        bad("wrapper_first_block_is_the_live_object", n, repr(prev), "identity with the live block", kind=c[0])
                        ok = False
                        break
                    dup = b.ignore_error_block
                    gd = type(dup) is cls and dup.key == key and dup.raw == c[-1] and b.raw == c[-1]
                    if gd and is_entry:
                        gd = dup.entry_type == c[1] and [(f.key, f.value) for f in dup.fields] == c[3]
                    if gd and not is_entry:
                        gd = dup.value == c[2]
                    if not gd:
                        bad("wrapper_exposes_complete_duplicate", n, repr(dup), c[-1], kind=c[0])
                        ok = False
                        break
        if not ok:
            continue
        if set(lib.entries_dict) != set(live_e) or any(lib.entries_dict[k] is not live_e[k] for k in live_e):
            bad("entries_dict_is_the_live_map", None, sorted(lib.entries_dict), sorted(live_e))
        elif set(lib.strings_dict) != set(live_s) or any(lib.strings_dict[k] is not live_s[k] for k in live_s):
            bad("strings_dict_is_the_live_map", None, sorted(lib.strings_dict), sorted(live_s))


def check_two_docs(acc, stripe=None):
    """Document B parsed into the library that already holds document A (optionally after a rejected, rolled-back
    replace): the library is what parsing A+B in one go gives - B's holders of keys A already holds are flagged."""
    docs = [ids for n in (1, 2) for ids in itertools.product(range(len(CAT)), repeat=n)]
    for na, a in enumerate(docs):
        if stripe is not None and na % 32 != stripe:
            continue
        for b in docs:
            if CAT[a[-1]][0] == "comment" and CAT[b[0]][0] == "comment":
                continue
            if any(CAT[x][0] == "comment" and CAT[y][0] == "comment" for x, y in list(zip(a, a[1:])) + list(zip(b, b[1:]))):
                continue
            ta = "\n".join(CAT[i][-1] for i in a)
            tb = "\n".join(CAT[i][-1] for i in b)
            for with_replace in (False, True, "first entry and first string removed through equal twins", "second part added through an iterable that reads the views"):
                if with_replace == "first entry and first string removed through equal twins" and len(b) > 1:
                    continue  # (twins: second documents of one block)
                case = {"two_docs": [list(a), list(b)], "rolled_back_replace": with_replace}
                acc.trace(3)
                acc.case(nontrivial_key=("two", a, b, with_replace))
                try:
                    lib = bibtexparser.parse_string(ta, parse_stack=[])
                    if with_replace == "second part added through an iterable that reads the views":
                        pass
                    elif with_replace and with_replace is not True:
                        # the caller names the blocks to remove by equal objects (the same text parsed again)
                        twin = bibtexparser.parse_string(ta, parse_stack=[])
                        for held, named in ((lib.entries[:1], twin.entries[:1]), ([x for x in lib.blocks if type(x) is String][:1], [x for x in twin.blocks if type(x) is String][:1])):
                            if held:
                                lib.remove(named[0])
                        ta_after = None
                    elif with_replace:
                        ents = lib.entries
                        if len(ents) >= 2 and ents[0].key != ents[1].key:
                            try:
                                lib.replace(ents[0], Entry(ents[0].entry_type, ents[1].key, []))
                            except ValueError:
                                pass
                        strs = [x for x in lib.blocks if type(x) is String]
                        if len(strs) >= 2:
                            try:
                                lib.replace(strs[0], String(strs[1].key, "v"))
                            except ValueError:
                                pass
                    # (every view is read before the second part arrives: views are functions of the blocks held NOW)
                    _ = (lib.entries, lib.strings, lib.preambles, lib.comments, lib.failed_blocks, lib.entries_dict, lib.strings_dict)
                    if with_replace == "second part added through an iterable that reads the views":
                        # the second part's own blocks (its duplicates unwrapped again), handed to add() one by one by a
                        # generator that looks at the library's views in between: what parsing both parts in one go gives
                        part = [x.ignore_error_block if isinstance(x, DuplicateBlockKeyBlock) else x for x in bibtexparser.parse_string(tb, parse_stack=[]).blocks]

                        def lazily(L=lib):
                            for x in part:
                                _ = (L.failed_blocks, L.entries, L.comments, L.preambles, L.strings)
                                yield x

                        lib.add(lazily())
                    else:
                        lib = bibtexparser.parse_string(tb, parse_stack=[], library=lib)
                    if with_replace not in (False, True, "second part added through an iterable that reads the views"):
                        # what is held now: A without the two removed blocks (their former duplicates stay flagged), then B
                        # - judged view against blocks below, and: a key no entry holds any more is free for B's first holder
                        one = None
                    else:
                        one = bibtexparser.parse_string(ta + "\n" + tb, parse_stack=[])
                    views = lambda L: ([id(x) for x in L.entries], sorted(id(x) for x in L.strings),  # (no order is promised for strings)
                                         [id(x) for x in L.failed_blocks], sorted(L.entries_dict), sorted(L.strings_dict))
                    derived = lambda L: ([id(x) for x in L.blocks if type(x) is Entry], sorted(id(x) for x in L.blocks if type(x) is String), [id(x) for x in L.blocks if isinstance(x, ParsingFailedBlock)], sorted({x.key for x in L.blocks if type(x) is Entry}), sorted({x.key for x in L.blocks if type(x) is String}))
                    if views(lib) != derived(lib):
                        acc.violation(
                            {"oracle": "views_describe_the_blocks_held", "rolled_back_replace": with_replace},
                            {"case": case, "observed": [len(v) for v in views(lib)], "expected": [len(v) for v in derived(lib)]},
                            size=len(a) + len(b),
                        )
                        continue
                except Exception as e:
                    acc.exception(e, case, "parse_string(library=...)")
                    continue
                # (a duplicate-key block exposes the first block: the position of that very object among the blocks held)
                pos = lambda L, o: next((n for n, y in enumerate(L.blocks) if y is o), -1)
                if one is None:
                    acc.step(("two", a, b), "twins", tuple(type(x).__name__ for x in lib.blocks))
                    continue
                sig = lambda L: [(type(x).__name__, getattr(x, "key", None), x.raw) + ((pos(L, x.previous_block), type(x.ignore_error_block).__name__, x.ignore_error_block.raw) if isinstance(x, DuplicateBlockKeyBlock) else ()) for x in L.blocks]
                acc.step(("two", a, b), with_replace, tuple(x[0] for x in sig(lib)))
                if sig(lib) != sig(one) or sorted(lib.entries_dict) != sorted(one.entries_dict) or sorted(lib.strings_dict) != sorted(one.strings_dict):
                    acc.violation(
                        {"oracle": "second_document_into_same_library", "rolled_back_replace": with_replace},
                        {"case": case, "observed": sig(lib), "expected": sig(one)},
                        size=len(a) + len(b),
                    )


class LowerKeys(BlockMiddleware):
    """A user block middleware that lower-cases citation keys and string names (in place or on copies): keys that differed
    only in letter case now collide - in the library the pass returns, the first is live and the later ones are flagged."""

    def transform_entry(self, entry, library):
        entry.key = entry.key.lower()
        return entry

    def transform_string(self, string, library):
        string.key = string.key.lower()
        return string


def check_keys_changed(acc):
    from bibtexparser.library import Library

    docs = [ids for n in (1, 2, 3) for ids in itertools.product(range(len(CAT)), repeat=n) if n < 3 or ids[0] in (0, 26, 27) or ids[1] in (26, 27)]
    pos = lambda L, o: next((n for n, y in enumerate(L.blocks) if y is o), -1)
    sig = lambda L: [(type(x).__name__, getattr(x, "key", None), x.raw) + ((pos(L, x.previous_block),) if isinstance(x, DuplicateBlockKeyBlock) else ()) for x in L.blocks] + [sorted(L.entries_dict), sorted(L.strings_dict)]
    for ids in docs:
        if any(CAT[x][0] == "comment" and CAT[y][0] == "comment" for x, y in zip(ids, ids[1:])):
            continue
        text = "\n".join(CAT[i][-1] for i in ids)
        for inplace in (True, False):
            case = {"keys_changed_by_a_user_middleware": list(ids), "inplace": inplace}
            acc.trace(2)
            acc.case(nontrivial_key=("keys-changed", ids, inplace))
            acc.count("keys_changed_documents")
            try:
                got = bibtexparser.parse_string(text, parse_stack=[LowerKeys(allow_inplace_modification=inplace)])
                # what a block pass is: every block's result, in order, in a new library
                src = bibtexparser.parse_string(text, parse_stack=[])
                m = LowerKeys(allow_inplace_modification=True)
                exp = Library([m.transform_block(b, src) for b in src.blocks])
            except Exception as e:
                acc.exception(e, case, "parse_string with a key-changing middleware")
                continue
            acc.step(("keys-changed", ids), inplace, tuple(type(x).__name__ for x in got.blocks))
            # (a copying pass copies an already flagged duplicate together with its own copy of the first block: which object
            # that wrapper points to is C07's subject; here: kinds, keys, raw texts, the live keys)
            strip = (lambda s_: [t[:3] if isinstance(t, tuple) else t for t in s_]) if not inplace else (lambda s_: s_)
            if strip(sig(got)) != strip(sig(exp)):
                acc.violation({"oracle": "duplicates_flagged_after_a_pass_that_changed_keys", "inplace": inplace}, {"case": case, "text": text, "observed": sig(got), "expected": sig(exp)}, size=len(ids))


def run_shard(shard, tier, acc):
    if shard[0] == "keys_changed":
        return check_keys_changed(acc)
    if shard[0] == "two_docs":
        return check_two_docs(acc, shard[1])
    if shard[0] == "wide":
        return check_wide(acc, tier)
    maxb = 4 if tier == "quick" else 5
    if shard[0] == "short":
        for n in (1,):
            for ids in itertools.product(range(len(CAT)), repeat=n):
                for sep in ("\n", " "):
                    check_doc(ids, sep, acc)
        return
    _, i, j = shard
    for n in range(2, maxb + 1):
        for rest in itertools.product(range(len(CAT)), repeat=n - 2):
            ids = (i, j) + rest
            for sep in ("\n", " "):
                check_doc(ids, sep, acc)


def replay(case, acc):
    if "two_docs" in case:
        return check_two_docs(acc)
    if "keys_changed_by_a_user_middleware" in case:
        return check_keys_changed(acc)
    if "wide" in case:
        return check_wide(acc, "quick" if case["wide"] <= 258 else "thorough")
    check_doc(tuple(case["ids"]), case["sep"], acc, case)


def unit_test(case):
    text = case["sep"].join(CAT[i][-1] for i in case["ids"])
    return (
        "import bibtexparser\n"
        f"lib = bibtexparser.parse_string({text!r})\n"
        "print([type(b).__name__ for b in lib.blocks], sorted(lib.entries_dict), sorted(lib.strings_dict))\n"
    )


def ENV_SHARDS(tier):
    """The broad, cheap families: run again in a fresh interpreter per environment (engine.run_environments)."""
    return [s for s in shards('quick') if s[0] in ("short", "wide") or (s[0] == "first" and s[1] == s[2] and s[1] < 8)]

