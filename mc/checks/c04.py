"""C04 — malformed blocks never damage neighbours; parsing resyncs at the next @block (DESIGN 4/C04)."""
import bibtexparser
from bibtexparser.model import Entry
from bibtexparser.splitter import Splitter

from .. import spaces
from ..canon import canon, content
from ..engine import seq_iter, seq_shards

ID = "C04"
LEAN = True  # cases are distinct by construction; see engine.Acc
RULE = (
    "triples D1 . X . '\\n' . D2 with D1 in 5 well-formed documents ending in a complete block, D2 in 6 well-formed documents "
    "starting with '@type{', X = every token sequence over the splitter alphabet up to the bound, plus every prefix and every "
    "single-token edit of 10 valid blocks, size-scaled malformed middles, and middles padded so that the suffix's header lies across offsets 4096 .. 2^20 at every position; each text is parsed splitter-only and with the default stack and compared with the "
    "parses of D1 and D2 alone. Non-trivial = X non-empty and the parse of the triple has a failed block or more blocks than "
    "D1 and D2 together (distinct by X)."
)
ASSUMPTIONS = [
    "keys used by D1, X and D2 come from disjoint pools, and D2 references only its own @string keys (otherwise duplicate-key "
    "wrapping and string resolution legitimately couple the parts: C09/C11)",
]
STATIC_SAMPLES = ['@a{d1, t = {x}}' + '@article{k, t = {' + '\n' + '@b{d2, u = "y"}']

D1S = [
    "@article{d1a, title = {T}, year = 1990}",
    '% head\n@string{d1s = "v"}',
    "@book{d1b, a = {x}}\n@comment{d1 {c}}",
    '@misc{d1c, n = d1s2 # "q"}\nfree text\n@comment{cc}\n@string{d1s2 = {w}}',
    "@b{d1e, z = {1}}\n@a{d1d, x%s = 1, x%s = 2, y = 3}",  # ends in an entry that repeats a field key (one holding a %-format)
]
D2S = [
    '@article{d2a, title = "T {"} x", pages = {1--2},}\n',
    '@string{d2s = "v2"}\n@book{d2b, p = d2s, q = zz}',
    '@preamble{"pre"}\ntrailing text',
    "@comment{d2 c}\n@misc{d2c}",
    "@a{d2d, f = {1}}\n\n@b{d2e, g = 2,\n h = {l1\nl2}}\n",
    "@misc{d2f}\n@a{d2g, f = {1}}",
    # entry types beyond plain letters (digits, underscore, non-ASCII letters: everything \\w matches)
    "@inproceedings2{d2h, f = {1}}\n@tech_report{d2i}\n@art\xedculo_9{d2j, g = {2},}",
    # an entry without a type, then one with a %-key that repeats a field
    "@{d2p, y = 7}\n@a{d2q%d, 100% = {7}, 100% = {8}}\n@{d2r}",  # (no bare 1: the middle may define a string of that name)
    # blanks / a tab between the type and the brace
    "@misc {d2m, f = {1}}\n@book\t{d2n}\n@String  {d2u = {w}}",
    # blocks that are not first on their line, after blocks of other kinds
    '@string{d2t = {v}} @b{d2k}\n@comment{c2} @a{d2l, f = {1}} @preamble{"q"} @c{d2o}',
]
X_BLOCKS = [
    "@article{xk1, t = {A {B}}, y = 1}",
    '@string{xs1 = "q" # v}',
    "@comment{x {y} z}",
    '@preamble{"p"}',
    '@book{xk2,\n a = "x, y",\n}',
    "@misc{xk3}",
    # every lexical state of the value scanner occurs at some truncation point: braces inside quotes (two deep),
    # quotes inside braces, concatenation, multi-line
    '@misc{xk4, t = "a {b} c", u = {d "e" f}}',
    '@a{xk6, v = "q {r {s} t} u" # xs,\n w = {x {y "z" } }\n}',
    '@string{xs2 = "m {n} o" # {p}}',
    # an entry that repeats a field key (what the scanner remembers about repeated keys when the block breaks off)
    "@article{xk7, note = {n1}, note = {n2}, year = 2001}",
]
ROUTES = ("split", "default")
# size-scaled malformed middles (thresholds on nesting depth, line count, block count)
X_FAMILIES = {
    "open_comment_nested": lambda n: "@comment{" + "{" * n,
    "open_preamble_nested": lambda n: "@preamble{" + "{" * n,
    "open_string_nested": lambda n: "@string{xs = " + "{" * n,
    "open_value_nested": lambda n: "@a{xk, t = " + "{" * n,
    "open_quoted_value_nested": lambda n: '@a{xk, t = "' + "{" * n,
    "closers": lambda n: "}" * n,
    "quotes": lambda n: '"' * n,
    "unterminated_entries": lambda n: "@a{xk,\n" * n,
    "unterminated_comments": lambda n: "@comment{x " * n,
    "lines_then_open": lambda n: "x\n" * n + "@a{xk, t = {",
    "failed_blocks": lambda n: "@a{xk a b}\n" * n,
    "backslash_lines": lambda n: "\\\n" * n,
    # complete blocks (never edited) that hold the suffixes' keys without owning them: n entries that repeat a field -
    # failed blocks, their keys are not live - and a comment mentioning the keys
    "failed_entries_holding_suffix_keys": lambda n: "\n".join("@a{%s, x = 1, x = 2}" % k for k in (["d2a", "d2b", "d2c", "d2d", "d2f", "d2m", "d2k"] * n)[:n]) + "\n@comment{d2a d2b d2s}",
}
X_SIZES = {"quick": [1, 10, 100, 990, 1000, 1010, 3000], "thorough": [1, 10, 100, 990, 1000, 1010, 3000, 10**4, 10**5]}


WINDOWS = [4096, 8192, 65536, 1 << 20]  # the sizes a chunked scan / read would use
X_WINDOW_KINDS = {"open": '@misc{xbroken, note = "never closed {\n', "text": "stray } text\n"}


def x_window(i, kind, W, k):
    """A middle such that the suffix's first header starts k characters before offset W of the text (k = 0: at it;
    the splitter itself scans the text behind one extra newline, hence k = -1 .. 10 covers both countings)."""
    d1 = D1S[i]
    head = X_WINDOW_KINDS[kind]
    line = "y" * 78 + "\n"
    room = W - k - len(d1) - len(head) - 1  # - 1: the newline that ends the middle
    n, r = divmod(room, len(line))
    return head + line * n + "z" * r


def bounds(tier):
    return {
        "alphabet": spaces.SIGMA_DOC,
        "x_max_len": 4 if tier == "quick" else 5,
        "d1": len(D1S),
        "d2": len(D2S),
        "d1_d2_pairs_for_sequences": 10 if tier == "quick" else 30,
        "x_block_prefixes_and_single_edits": len(X_BLOCKS),
        "routes": list(ROUTES),
    }


def shards(tier):
    out = [("seq", s) for s in seq_shards(spaces.SIGMA_DOC, 4 if tier == "quick" else 5)]
    out += [("xblock", i) for i in range(len(X_BLOCKS))]
    out += [("xfam", name) for name in sorted(X_FAMILIES)]
    out += [("xwindow", W) for W in WINDOWS]
    return out


def parse(text, route):
    if route == "split":
        return Splitter(text).split()
    return bibtexparser.parse_string(text)


def bsig(b, shift):
    """Everything the suffix clause speaks about, with start lines shifted."""
    d = []
    for k, v in sorted(vars(b).items()):
        if k == "_start_line_in_file":
            d.append((k, v - shift if isinstance(v, int) else v))
        elif k == "_fields":
            d.append((k, tuple((f.key, canon(f.value), f.start_line - shift if isinstance(f.start_line, int) else f.start_line) for f in v)))
        elif k in ("_ignore_error_block", "_previous_block") and v is not None:
            d.append((k, bsig(v, shift)))
        else:
            d.append((k, canon(v)))
    return (type(b).__name__, tuple(d))


_CACHE = {}


def alone(doc, route):
    key = (doc, route)
    if key not in _CACHE:
        lib = parse(doc, route)
        _CACHE[key] = (tuple(canon(b) for b in lib.blocks), tuple(bsig(b, 0) for b in lib.blocks))
    return _CACHE[key]


def check_triple(i, x, j, acc, case=None):
    d1, d2 = D1S[i], D2S[j]
    head = d1 + x + "\n"
    text = head + d2
    shift = head.count("\n")
    case = case if case is not None else {"d1": i, "x": x, "d2": j}
    interesting = False
    for route in ROUTES:
        acc.trace()
        try:
            a_full, _ = alone(d1, route)
            _, b_sig = alone(d2, route)
        except Exception as e:
            acc.exception(e, case, "parse of a well-formed part on its own", size=len(x))
            continue
        try:
            # history: the malformed text on its own first (it ends at EOF in whatever scanner state it reaches);
            # nothing of that call may survive into the next one
            try:
                parse(x, route)
            except Exception:
                pass
            lib = parse(text, route)
        except Exception as e:
            acc.exception(e, case, route, size=len(x))
            continue
        blocks = lib.blocks
        if len(blocks) != len(a_full) + len(b_sig) or lib.failed_blocks:
            interesting = True
        got_prefix = tuple(canon(b) for b in blocks[: len(a_full)])
        if got_prefix != a_full:
            acc.violation(
                {"oracle": "prefix_blocks_unchanged", "route": route},
                {"case": case, "text": text, "observed": [content(b) for b in blocks[: len(a_full)]], "expected": "blocks of D1 parsed alone", "d1_text": d1},
                size=min(len(x), 10**6),
            )
            continue
        got_suffix = tuple(bsig(b, shift) for b in blocks[len(blocks) - len(b_sig) :]) if len(blocks) >= len(b_sig) else None
        if got_suffix != b_sig:
            what = "suffix_blocks"
            if got_suffix is not None and len(got_suffix) == len(b_sig):
                # only the line numbers?
                nolines = tuple(bsig(b, 0)[0] for b in blocks[len(blocks) - len(b_sig) :])
                if all(type(b).__name__ == s[0] for b, s in zip(blocks[len(blocks) - len(b_sig) :], b_sig)) and [
                    content(b) for b in blocks[len(blocks) - len(b_sig) :]
                ] == [content(b) for b in parse(d2, route).blocks]:
                    what = "suffix_metadata_or_lines"
            acc.violation(
                {"oracle": "suffix_blocks_as_alone", "route": route, "what": what},
                {
                    "case": case,
                    "text": text,
                    "observed": [content(b) for b in blocks[-len(b_sig) :]],
                    "expected": [content(b) for b in parse(d2, route).blocks],
                    "line_shift": shift,
                },
                size=len(x),
            )
            continue
        if route == "split":
            acc.step(("triple", i, x, j), "split", tuple(type(b).__name__ for b in blocks))
            acc.outcome(tuple(type(b).__name__ for b in blocks[len(a_full) : len(blocks) - len(b_sig)]))
    acc.case(sample=lambda: {"d1": d1, "x": x, "d2": d2}, nontrivial_key=x if (x and interesting) else None)


def run_shard(shard, tier, acc):
    kind = shard[0]
    if kind == "seq":
        # quick: every D1 with the first D2 and every D2 with the first D1 (8 pairs); thorough: the full 5 x 6 grid
        grid = [(i, j) for i in range(len(D1S)) for j in range(len(D2S)) if tier == "thorough" or i == 0 or j == 0]
        for toks in seq_iter(spaces.SIGMA_DOC, shard[1]):
            x = "".join(toks)
            for i, j in grid:
                check_triple(i, x, j, acc)
    elif kind == "xfam":
        for n in X_SIZES[tier] + ([16500] if shard[1] in ("failed_blocks", "closers") and tier == "quick" else []):
            x = X_FAMILIES[shard[1]](n)
            acc.count("xfam_cases")
            for i in (0, 3, 4) if n <= 5000 else (3,):
                for j in (0, 1, 4, 5) if n <= 5000 else (4,):
                    check_triple(i, x, j, acc, case={"d1": i, "xfam": [shard[1], n], "d2": j})
    elif kind == "xwindow":
        W = shard[1]
        for xkind in sorted(X_WINDOW_KINDS):
            for k in range(-1, 11):
                for i in (0, 3):
                    for j in (0, 1, 8):
                        acc.count("xwindow_cases")
                        x = x_window(i, xkind, W, k)
                        assert len(D1S[i] + x + "\n") == W - k
                        check_triple(i, x, j, acc, case={"d1": i, "xwindow": [xkind, W, k], "d2": j})
    elif kind == "xblock":
        toks = spaces.tokenize(X_BLOCKS[shard[1]])
        xs = ["".join(toks[:n]) for n in range(len(toks) + 1)]
        xs += ["".join(spaces.apply_edits(toks, [e])) for e in spaces.single_edits(toks, spaces.SIGMA_DOC)]
        for x in xs:
            acc.count("xblock_cases")
            for i in range(len(D1S)):
                for j in range(len(D2S)):
                    check_triple(i, x, j, acc)


def replay(case, acc):
    x = case["x"] if "x" in case else (x_window(case["d1"], *case["xwindow"]) if "xwindow" in case else X_FAMILIES[case["xfam"][0]](case["xfam"][1]))
    check_triple(case["d1"], x, case["d2"], acc, case)


def unit_test(case):
    return (
        "import bibtexparser\n"
        f"d1, x, d2 = {D1S[case['d1']]!r}, {case.get('x', case.get('xfam', case.get('xwindow')))!r}, {D2S[case['d2']]!r}\n"
        "P = bibtexparser.parse_string(d1 + x + '\\n' + d2).blocks\n"
        "A = bibtexparser.parse_string(d1).blocks; B = bibtexparser.parse_string(d2).blocks\n"
        "assert P[:len(A)] == A\n"
        "assert [b.raw for b in P[-len(B):]] == [b.raw for b in B]\n"
        "assert [type(b) for b in P[-len(B):]] == [type(b) for b in B]\n"
    )


def ENV_SHARDS(tier):
    """The broad, cheap families: run again in a fresh interpreter per environment (engine.run_environments)."""
    return [s for s in shards('quick') if (s[0] == "seq" and s[1][0] <= 2) or s == ("xwindow", 4096)]

