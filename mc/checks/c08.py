"""C08 — Library views stay consistent under any sequence of add / remove / replace (DESIGN 4/C08).

Explicit-state BFS over real Library objects against a list+two-dicts reference model; the whole
reachable state graph below the length bound is closed, and a no-dedup run to depth 3 guards the
deduplication argument.
"""
import itertools

from bibtexparser.library import Library
from bibtexparser.model import (
    DuplicateBlockKeyBlock,
    Entry,
    ExplicitComment,
    Field,
    ImplicitComment,
    ParsingFailedBlock,
    Preamble,
    String,
)

from .. import engine
from ..canon import canon

ID = "C08"
RULE = (
    "breadth-first closure of the state graph of real Library objects under add (single, list, both flags), remove (universe "
    "block, held position, list) and replace (universe block or held position -> universe block, both fail modes) over a universe "
    "of blocks with colliding keys (same key twice, equal twin, same key across kinds), libraries pruned at length L; plus every "
    "history of length <=3 without deduplication and Library(blocks=[...]) as alternative initial states. After every call the "
    "real object is compared with the reference model and the partition/identity invariants. Non-trivial = transition that "
    "changes the canonical state or raises (distinct by (state, op))."
)
ASSUMPTIONS = [
    "the canonical state (block contents in order + both key->position maps) determines all futures, because operations are "
    "named by universe block / held position and the library compares blocks structurally; guarded by the no-dedup run",
    "order of Library.strings is not constrained (the property states none)",
]
STATIC_SAMPLES = [["add Ea1", "add Ea2 fail", "remove pos1"]]


class UserEntry2(Entry):
    """A second user subclass: a sibling of UserEntry (neither derives from the other)."""


class UserString2(String):
    """A sibling of UserString."""


class UserString(String):
    """A user's subclass of String."""


class UserEntry(Entry):
    """A user-defined subclass: it is an Entry for every clause of the property.  It also has a length (its number of
    fields), so an instance without fields is falsy - and still an entry that holds its key."""

    def __len__(self):
        return len(self.fields)


class SafeLibrary(Library):
    """A user's subclass that hands out copies of the block list (so that callers cannot edit the library behind its
    back): still a Library for every clause of the property."""

    @property
    def blocks(self):
        return list(Library.blocks.fget(self))


LIBCLS = [Library]  # (set per shard by the 'subclass' family, reset afterwards)

# key texts: the universe's keys 'a' / 'b' may be swapped for texts that mean something to %-formats, templates and
# regular expressions (set per shard by the 'keytext' family, reset afterwards)
KEYMAP = {}
KEYMAPS = [{"a": "a}", "b": "{0}"}, {"a": "%s", "b": "100%"}, {"a": "k.d+(", "b": "a|b"}, {"a": "{}", "b": "\\1"}]


def _k(key):
    return KEYMAP.get(key, key)


def universe(tier):
    u = {
        "Ea1": lambda: UserEntry2("article", _k("a"), [Field("t", "1")]),  # (sibling subclasses colliding: both are entries)
        "Ea2": lambda: UserEntry("book", _k("a"), [Field("u", "2")]),  # (a user subclass colliding with plain entries, both orders)
        "Ea1t": lambda: UserEntry2("article", _k("a"), [Field("t", "1")]),  # structurally equal twin of Ea1
        "Eb": lambda: UserEntry("article", _k("b"), []),
        "E0": lambda: Entry("misc", "", [Field("n", "0")]),  # the empty key is a key like any other
        "Sa": lambda: UserString2(_k("a"), "x"),
        "Sa2": lambda: UserString(_k("a"), "y"),
    }
    u["P"] = lambda: Preamble("p")
    if tier == "thorough":
        u["F"] = lambda: ParsingFailedBlock(error=Exception("e"), raw="@x")
    return u


def names(tier):
    return list(universe(tier))


def foreign():
    """Failed blocks made elsewhere and handed in by the caller (moved over from another library, built by a tool):
    blocks like any other for add / remove / replace - never a reason to reject or roll back a call."""
    from bibtexparser.model import DuplicateFieldKeyBlock, MiddlewareErrorBlock

    return {
        "xD": lambda: DuplicateBlockKeyBlock(key="a", previous_block=Entry("article", "a", [Field("t", "1")]), duplicate_block=Entry("misc", "a", [Field("v", "3")], raw="@misc{a, v = 3}"), raw="@misc{a, v = 3}"),
        "xDF": lambda: DuplicateFieldKeyBlock({"x"}, Entry("y", "b", [Field("x", "1"), Field("x", "2")], raw="@y{b, x = 1, x = 2}")),
        "xME": lambda: MiddlewareErrorBlock(Entry("article", "a", [Field("author", "A,")], raw="@article{a, author = {A,}}"), error=ValueError("bad name")),
        "xF": lambda: ParsingFailedBlock(error=Exception("e"), raw="@broken{"),
        # twins of universe blocks that differ in their parser metadata only: different blocks (== says so)
        "xPm": lambda: _with_meta(Preamble("p"), {"note": 1}),
        "xEbm": lambda: _with_meta(UserEntry("article", _k("b"), []), {"note": 1}),
    }


def _with_meta(b, meta):
    b.parser_metadata.update(meta)
    return b



def maxlen(tier):
    return 3 if tier == "quick" else 4


def bounds(tier):
    return {"universe": names(tier), "max_library_length": maxlen(tier), "no_dedup_depth": 2 if tier == "quick" else 3, "closure": "full (no depth bound)"}


# ------------------------------------------------------------------------------------------------
class Model:
    """The specified semantics: a list of slots and two first-holder maps."""

    def __init__(self):
        self.slots = []  # ("plain", blk) | ("dup", blk, prev)
        self.ents = {}
        self.strs = {}

    def _admit(self, b):
        if isinstance(b, Entry):
            d = self.ents
        elif isinstance(b, String):
            d = self.strs
        else:
            return ("plain", b)
        if b.key in d:
            return ("dup", b, d[b.key])
        d[b.key] = b
        return ("plain", b)

    def _release(self, slot):
        if slot[0] == "plain":
            b = slot[1]
            if isinstance(b, Entry):
                del self.ents[b.key]
            elif isinstance(b, String):
                del self.strs[b.key]

    def add(self, blocks, fail):
        dups = 0
        for b in blocks:
            s = self._admit(b)
            dups += s[0] == "dup"
            self.slots.append(s)
        if fail and dups:
            raise ValueError("duplicate")

    def find(self, target):
        """target: ("pos", i) or ("blk", block) -> index of the first slot holding an equal plain block."""
        if target[0] == "pos":
            return target[1] if target[1] < len(self.slots) else None
        c = canon(target[1])
        for i, s in enumerate(self.slots):
            if s[0] == "plain" and canon(s[1]) == c:
                return i
        return None

    def remove(self, targets):
        # all-or-nothing: every target must be found in what remains after the earlier ones
        idxs = []
        taken = set()
        for t in targets:
            if t[0] == "pos":
                i = t[1] if (t[1] < len(self.slots) and t[1] not in taken) else None
            else:
                c = canon(t[1])
                i = next((n for n, s in enumerate(self.slots) if n not in taken and s[0] == "plain" and canon(s[1]) == c), None)
            if i is None:
                raise ValueError("absent")
            taken.add(i)
            idxs.append(i)
        for i in sorted(idxs, reverse=True):
            self._release(self.slots[i])
            del self.slots[i]

    def replace(self, target, new, fail):
        i = self.find(target)
        if i is None:
            raise ValueError("absent")
        old_slot = self.slots[i]
        self._release(old_slot)
        s = self._admit(new)
        if s[0] == "dup" and fail:
            # rollback: the block named by the caller comes back at its position (for a universe block that is
            # the caller's object, which is structurally equal to the one that was held)
            back = self._admit(target[1] if target[0] == "blk" else old_slot[1]) if old_slot[0] == "plain" else old_slot
            self.slots[i] = back
            raise ValueError("duplicate")
        self.slots[i] = s


# ------------------------------------------------------------------------------------------------
def ops_for(tier, nheld):
    U = names(tier)
    ops = []
    for u in U:
        ops.append(("add", u, False))
        ops.append(("add", u, True))
    for u, v in itertools.permutations(U, 2):
        ops.append(("addl", u, v, False))
        ops.append(("addl", u, v, True))
    for u in U:
        ops.append(("rem", ("u", u)))
    for p in range(nheld):
        ops.append(("rem", ("p", p)))
    for u, v in itertools.permutations(U, 2):
        ops.append(("reml", ("u", u), ("u", v)))
    for p in range(nheld):
        for u in U:
            ops.append(("reml", ("p", p), ("u", u)))
    ops.append(("reml", ("u", U[0]), ("u", U[0])))  # the same block named twice
    for u in U[:4]:
        for v in U[:4]:
            ops.append(("addgen", u, v))  # add(generator yielding u, v and then raising)
            ops.append(("addlazy", u, v))  # add(generator yielding u, v that reads every view of the library in between)
    for old in [("u", u) for u in U] + [("p", p) for p in range(nheld)]:
        for new in U:
            for fail in (True, False):
                ops.append(("rep", old, new, fail))
    return ops


def grows(op):
    return {"add": 1, "addl": 2, "addgen": 2, "addlazy": 2}.get(op[0], 0)


class World:
    def __init__(self, tier, init=()):
        self.uni = {k: f() for k, f in universe(tier).items()}
        self.uni.update({k: f() for k, f in foreign().items()})  # (looked up by name only: not part of the closure's alphabet)
        self.model = Model()
        if init:
            blocks = [self.uni[n] for n in init]
            self.lib = LIBCLS[0](blocks=blocks)
            self.model.add(blocks, False)
        else:
            self.lib = LIBCLS[0]()

    def resolve(self, ref):
        """-> (argument for the real call, target for the model)"""
        if ref[0] == "u":
            b = self.uni[ref[1]]
            return b, ("blk", b)
        p = ref[1]
        held = self.lib.blocks
        return (held[p] if p < len(held) else None), ("pos", p)

    def apply(self, op, acc, hist, check=True):
        """Run one op on the real library and on the model and judge (check=False: only execute,
        used when replaying an already-judged prefix).  None = op not applicable, True = model in step."""
        lib, model = self.lib, self.model
        before = canon(lib) if check else None
        kind = op[0]
        try:
            if kind == "add":
                real = lambda: lib.add(self.uni[op[1]], fail_on_duplicate_key=op[2]) if op[2] else lib.add(self.uni[op[1]])
                ref = lambda: model.add([self.uni[op[1]]], op[2])
                flag = op[2]
            elif kind == "addl":
                bl = [self.uni[op[1]], self.uni[op[2]]]
                real = lambda: lib.add(list(bl), fail_on_duplicate_key=op[3])
                ref = lambda: model.add(bl, op[3])
                flag = op[3]
            elif kind == "addlazy":
                bl = [self.uni[op[1]], self.uni[op[2]]]

                def lazy():
                    for b_ in bl:
                        # the caller's iterable looks at the library while add is consuming it (a merge that skips what is there)
                        _ = (lib.entries, lib.strings, lib.preambles, lib.comments, lib.failed_blocks, dict(lib.entries_dict), dict(lib.strings_dict), list(lib.blocks))
                        yield b_

                real = lambda: lib.add(lazy())
                ref = lambda: model.add(bl, False)
                flag = False
            elif kind == "addgen":
                a, b = self.uni[op[1]], self.uni[op[2]]

                def gen():
                    yield a
                    yield b
                    raise KeyError("the caller's iterable failed")

                # not specified which blocks are in afterwards; specified: the library is a consistent library.
                try:
                    lib.add(gen())
                except KeyError:
                    pass
                except Exception as e:
                    acc.violation(
                        {"oracle": "only_valueerror", "op": "add(iterable)", "exception": type(e).__name__},
                        {"case": {"history": hist, "op": op, "tier_universe": list(self.uni), "keymap": dict(KEYMAP), "library_class": LIBCLS[0].__name__}, "observed": repr(e), "expected": "the iterable's own exception"},
                        size=len(hist),
                    )
                    return False
                # bring the model in step with what the implementation kept (a prefix of a, b), then judge all views
                kept = len(lib.blocks) - len(model.slots)
                if kept not in (0, 1, 2):
                    kept = -1
                else:
                    model.add([a, b][:kept], False)
                case = {"history": hist, "op": op, "tier_universe": list(self.uni), "keymap": dict(KEYMAP), "library_class": LIBCLS[0].__name__}
                if kept < 0:
                    acc.violation({"oracle": "blocks_match_model", "op": "add"}, {"case": case, "observed": _show(lib), "expected": "a prefix of the iterable's blocks appended"}, size=len(hist))
                    return False
                return self.judge(acc, case, "add")
            elif kind == "rem":
                arg, tgt = self.resolve(op[1])
                if arg is None:
                    return None
                real = lambda: lib.remove(arg)
                # list semantics: the first structurally equal element goes (a held position is only a way to name a block)
                ref = lambda: model.remove([("blk", arg) if tgt[0] == "pos" and not isinstance(arg, DuplicateBlockKeyBlock) else tgt])
                flag = None
            elif kind == "reml":
                a1, t1 = self.resolve(op[1])
                a2, t2 = self.resolve(op[2])
                if a1 is None or a2 is None:
                    return None
                real = lambda: lib.remove([a1, a2])
                # a held position and a universe block may denote the same slot: the model works on blocks
                ref = lambda: model.remove([("blk", a1) if t1[0] == "pos" and not isinstance(a1, DuplicateBlockKeyBlock) else t1, t2])
                flag = None
            else:
                arg, tgt = self.resolve(op[1])
                if arg is None:
                    return None
                new = self.uni[op[2]]
                # (the flag in every spelling: left out where it is the documented default True, by position, by keyword)
                if op[1][0] == "u":
                    real = (lambda: lib.replace(arg, new)) if op[3] else (lambda: lib.replace(arg, new, False))
                else:
                    real = lambda: lib.replace(arg, new, fail_on_duplicate_key=op[3])
                ref = lambda: model.replace(tgt if tgt[0] == "blk" or isinstance(arg, DuplicateBlockKeyBlock) else ("blk", arg), new, op[3])
                flag = op[3]
        except KeyError:
            return None
        raised = None
        if not check:
            for f in (real, ref):
                try:
                    f()
                except Exception:
                    pass
            return True
        try:
            real()
        except ValueError:
            raised = "ValueError"
        except Exception as e:
            raised = type(e).__name__
            acc.violation(
                {"oracle": "only_valueerror", "op": kind, "exception": raised},
                {"case": {"history": hist, "op": op, "tier_universe": list(self.uni), "keymap": dict(KEYMAP), "library_class": LIBCLS[0].__name__}, "observed": f"{raised}: {e}", "expected": "ValueError or success"},
                size=len(hist),
            )
            return False
        ref_raised = None
        try:
            ref()
        except ValueError:
            ref_raised = "ValueError"
        case = {"history": hist, "op": op, "tier_universe": list(self.uni), "keymap": dict(KEYMAP), "library_class": LIBCLS[0].__name__}
        opname = {"add": "add", "addl": "add", "addlazy": "add", "rem": "remove", "reml": "remove", "rep": "replace"}[kind]
        if raised == "ValueError":
            after = canon(lib)
            if after != before:
                acc.violation(
                    {"oracle": "valueerror_leaves_state", "op": opname, "fail_on_duplicate_key": flag},
                    {"case": case, "observed": _show(lib), "expected": "library equal to what it was before the raising call"},
                    size=len(hist),
                )
                if opname == "add":
                    # F9: documented behaviour (raise after inserting). Keep the model in step with the
                    # implementation so that every other clause is still decided after such a call.
                    pass
        if (raised is None) != (ref_raised is None):
            acc.violation(
                {"oracle": "raises_as_specified", "op": opname, "impl_raised": raised, "model_raised": ref_raised},
                {"case": case, "observed": raised, "expected": ref_raised},
                size=len(hist),
            )
            return False
        return self.judge(acc, case, opname)

    def judge(self, acc, case, opname):
        lib, model = self.lib, self.model
        blocks = lib.blocks
        bad = None
        if len(blocks) != len(model.slots):
            bad = ("blocks_match_model", f"{len(blocks)} blocks, model {len(model.slots)}")
        else:
            for i, (b, s) in enumerate(zip(blocks, model.slots)):
                if s[0] == "plain":
                    if b is not s[1] and canon(b) != canon(s[1]):
                        bad = ("blocks_match_model", f"position {i}: {type(b).__name__} is not the expected block")
                        break
                    if isinstance(b, DuplicateBlockKeyBlock) and not isinstance(s[1], DuplicateBlockKeyBlock):
                        bad = ("blocks_match_model", f"position {i}: unexpected duplicate wrapper")
                        break
                else:
                    if not isinstance(b, DuplicateBlockKeyBlock):
                        bad = ("duplicate_is_wrapped", f"position {i}: {type(b).__name__} should be a DuplicateBlockKeyBlock")
                        break
                    if b.ignore_error_block is not s[1] or b.previous_block is not s[2] or b.key != s[1].key:
                        bad = ("duplicate_wrapper_content", f"position {i}: wrapper does not expose key / first block / duplicate")
                        break
        if bad is None:
            ents = [b for b in blocks if isinstance(b, Entry)]
            le = lib.entries
            if len(le) != len(ents) or any(x is not y for x, y in zip(le, ents)):
                bad = ("entries_are_the_entry_blocks_in_order", repr([getattr(e, "key", None) for e in le]))
        if bad is None:
            ed, sd = lib.entries_dict, lib.strings_dict
            if set(ed) != set(model.ents) or any(ed[k] is not model.ents[k] and canon(ed[k]) != canon(model.ents[k]) for k in ed):
                bad = ("entries_dict_maps_held_keys", f"{sorted(ed)} vs model {sorted(model.ents)}")
            elif set(sd) != set(model.strs) or any(sd[k] is not model.strs[k] and canon(sd[k]) != canon(model.strs[k]) for k in sd):
                bad = ("strings_dict_maps_held_keys", f"{sorted(sd)} vs model {sorted(model.strs)}")
            else:
                held = {id(b) for b in blocks}
                if any(id(v) not in held for v in ed.values()) or any(id(v) not in held for v in sd.values()):
                    bad = ("dict_values_are_held_objects", "a dict value is not an element of blocks")
                ekeys = [b.key for b in blocks if isinstance(b, Entry)]
                skeys = [b.key for b in blocks if isinstance(b, String)]
                if len(ekeys) != len(set(ekeys)) or len(skeys) != len(set(skeys)):
                    bad = ("no_two_held_share_a_key", f"entries {ekeys} strings {skeys}")
                elif len(ed) != len(ekeys) or len(sd) != len(skeys):
                    bad = ("dict_sizes", f"{len(ed)}/{len(ekeys)} {len(sd)}/{len(skeys)}")
        if bad is None:
            parts = lib.entries + lib.strings + lib.preambles + lib.comments + lib.failed_blocks
            if sorted(map(id, parts)) != sorted(map(id, blocks)):
                bad = ("views_partition_blocks", f"{len(parts)} in views, {len(blocks)} blocks")
        if bad is not None:
            acc.violation(
                {"oracle": bad[0], "op": opname},
                {"case": case, "observed": bad[1] + " | " + _show(lib), "expected": "reference model: " + _show_model(model)},
                size=len(case["history"]),
            )
            # re-synchronise is impossible; the caller stops expanding this branch
            return False
        return True


def _show(lib):
    return "[" + ", ".join(_b(b) for b in lib.blocks) + f"] entries_dict={sorted(lib.entries_dict)} strings_dict={sorted(lib.strings_dict)}"


def _b(b):
    if isinstance(b, DuplicateBlockKeyBlock):
        return f"Dup({_b(b.ignore_error_block)})"
    return f"{type(b).__name__}:{getattr(b, 'key', '')}"


def _show_model(m):
    return "[" + ", ".join((_b(s[1]) if s[0] == "plain" else f"Dup({_b(s[1])})") for s in m.slots) + f"] ents={sorted(m.ents)} strs={sorted(m.strs)}"


INITS = [(), ("Ea1", "Ea2"), ("Sa", "Ea1", "Sa2"), ("Ea1", "Ea1t", "Eb")]


def build(tier, hist, acc=None):
    init, ops = hist[0], hist[1:]
    w = World(tier, init)
    sink = acc if acc is not None else engine.Acc()
    for n, op in enumerate(ops):
        w.apply(tuple(op) if not isinstance(op, tuple) else op, sink, [init] + list(ops[:n]), check=acc is not None)
    return w


def _tup(op):
    return tuple(_tup(x) if isinstance(x, list) else x for x in op)


def initial(tier, acc):
    out = []
    for init in INITS:
        w = World(tier, init)
        w.judge(acc, {"history": [list(init)], "op": None, "tier_universe": names(tier)}, "init")
        # differential: constructor == sequence of single adds
        w2 = World(tier, ())
        for n in init:
            w2.lib.add(w2.uni[n])
        if canon(w.lib) != canon(w2.lib):
            acc.violation({"oracle": "constructor_equals_adds"}, {"case": {"history": [list(init)], "op": None}, "observed": _show(w.lib), "expected": _show(w2.lib)})
        out.append((engine.h(canon(w.lib)), [list(init)]))
    return out


def expand(hist, tier, acc):
    w0 = build(tier, hist)
    s0 = canon(w0.lib)
    k0 = engine.h(s0)
    acc.states.add(k0)
    n = len(w0.lib.blocks)
    L = maxlen(tier)
    for op in ops_for(tier, n):
        if n + grows(op) > L:
            continue
        w = build(tier, hist)
        st = w.apply(op, acc, hist)
        if st is None:
            continue
        acc.trace()
        acc.case(sample=lambda: {"history": hist, "op": op, "result": _show(w.lib)})
        s1 = canon(w.lib)
        k1 = engine.h(s1)
        acc.states.add(k1)
        acc.transitions.add(engine.h((k0, op, k1)))
        if k1 != k0:
            acc.nontrivial.add(engine.h((k0, op)))
        acc.outcome(k1)
        if st:
            # (after a violation the model has lost track of this branch: it is reported, not explored further)
            yield k1, hist + [list(op)]


def explore(tier, seed, acc, procs):
    seen = engine.bfs(__name__, tier, seed, acc, procs)
    acc.counters["closed_graph_states"] = len(seen)


# -- the no-dedup guard: every history of length <= 3 from the empty library ---------------------------
def shards(tier):
    U = names(tier)
    first_ops = [op for op in ops_for(tier, 0) if grows(op) <= maxlen(tier)]
    return [("nodedup", i) for i in range(len(first_ops))] + [("foreign", i) for i in range(len(INITS))] + [("raising", i) for i in range(len(INITS))] + [("keytext", None, j) for j in range(len(INITS))] + [("keytext", i, j) for i in range(len(KEYMAPS)) for j in range(len(INITS))]


def run_keytext(tier, km, init, acc):
    """The same library with keys that hold %-format, template and regular-expression characters: every history of two
    single-block operations from this initial state, judged like every other step."""
    global KEYMAP
    KEYMAP = dict(KEYMAPS[km]) if km is not None else {}
    LIBCLS[0] = SafeLibrary if km is None else Library
    try:
        w0 = World(tier, init)
        w0.judge(acc, {"history": [list(init)], "op": None, "tier_universe": names(tier), "keymap": km, "library_class": LIBCLS[0].__name__}, "init")
        n0 = len(w0.lib.blocks)
        # (add with the fail flag is left to the closure: its recorded finding F9 would flood these shards)
        single = lambda ops: [op for op in ops if op[0] in ("rem", "rep") or (op[0] == "add" and not op[2])]
        for op1 in single(ops_for(tier, n0)):
            hist = [list(init)]
            w = build(tier, hist)
            acc.trace()
            acc.case(nontrivial_key=("keytext", km if km is not None else -1, tuple(init), op1))
            acc.count("keytext_histories")
            if not w.apply(op1, acc, hist):
                continue
            n1 = len(w.lib.blocks)
            if n1 > maxlen(tier):
                continue
            for op2 in single(ops_for(tier, n1)):
                if op2[0] == "rep" and op2[1][0] == "p":
                    continue  # (positions are covered through the blocks they hold)
                h2 = hist + [list(op1)]
                w2 = build(tier, h2)
                acc.trace()
                acc.case(nontrivial_key=("keytext", km if km is not None else -1, tuple(init), op1, op2))
                acc.count("keytext_histories")
                w2.apply(op2, acc, h2)
    finally:
        KEYMAP = {}
        LIBCLS[0] = Library


def run_foreign(tier, init, acc):
    """Every way of bringing one caller-made failed block in (add, replace at every position, every flag), then every
    single operation naming it or a second one; judged against the model after each call like everything else."""
    X = list(foreign())
    n0 = len(World(tier, init).lib.blocks)
    firsts = [("add", x, f) for x in X for f in (False, True)] + [("rep", ("p", p), x, f) for p in range(n0) for x in X for f in (False, True)]
    for op1 in firsts:
        hist = [list(init)]
        w = build(tier, hist)
        acc.trace()
        acc.case(nontrivial_key=("foreign", tuple(init), op1))
        acc.count("foreign_block_histories")
        if not w.apply(op1, acc, hist):
            continue
        n1 = len(w.lib.blocks)
        x = op1[1] if op1[0] == "add" else op1[2]
        seconds = [("rem", ("u", x)), ("add", x, False), ("add", "Ea2", True), ("add", "Sa", False)]
        seconds += [("rep", ("u", x), y, f) for y in X + ["Ea2", "Sa2", "P"] if y != x for f in (False, True)]
        seconds += [("rep", ("p", p), y, True) for p in range(n1) for y in X if y != x]
        for op2 in seconds:
            h2 = hist + [list(op1)]
            w2 = build(tier, h2)
            acc.trace()
            acc.case(nontrivial_key=("foreign", tuple(init), op1, op2))
            acc.count("foreign_block_histories")
            w2.apply(op2, acc, h2)


def hostile_blocks():
    """Blocks on which a call may well raise something other than ValueError (a key that cannot be hashed): what the call
    does is not specified, that the library's views still describe one and the same library afterwards is
    ('including calls that raise')."""
    return {
        "hE": lambda: Entry("article", ["unhashable"], [Field("t", "1")]),
        "hS": lambda: String(["unhashable"], "x"),
        "hE2": lambda: UserEntry("misc", {"k": 1}, []),
    }


def self_consistent(lib):
    """The clauses of the property that need no reference model: each view against `blocks` of the same object."""
    blocks = lib.blocks
    # (not judged: one object held twice - a caller may add the same un-keyed block object twice)
    ents = [b for b in blocks if isinstance(b, Entry)]
    le = lib.entries
    if len(le) != len(ents) or any(x is not y for x, y in zip(le, ents)):
        return ("entries_are_the_entry_blocks_in_order", repr([getattr(e, "key", None) for e in le]))
    strs = [b for b in blocks if isinstance(b, String)]
    ed, sd = lib.entries_dict, lib.strings_dict
    held = {id(b) for b in blocks}
    if any(id(v) not in held for v in ed.values()) or any(id(v) not in held for v in sd.values()):
        return ("dict_values_are_held_objects", "a dict value is not an element of blocks")
    if sorted(map(id, ed.values())) != sorted(map(id, ents)) or any(k != v.key for k, v in ed.items()):
        return ("entries_dict_maps_held_keys", f"{list(ed)} vs held {[e.key for e in ents]}")
    if sorted(map(id, sd.values())) != sorted(map(id, strs)) or any(k != v.key for k, v in sd.items()):
        return ("strings_dict_maps_held_keys", f"{list(sd)} vs held {[e.key for e in strs]}")
    parts = lib.entries + lib.strings + lib.preambles + lib.comments + lib.failed_blocks
    if sorted(map(id, parts)) != sorted(map(id, blocks)):
        return ("views_partition_blocks", f"{len(parts)} in views, {len(blocks)} blocks")
    return None


def run_raising(tier, init, acc):
    """One call that names a hostile block (add single / in a list at either end, replace of every held position, both
    flags), then one ordinary call; after each, raised or not, the views are judged against `blocks` of the same object."""
    H = hostile_blocks()
    U = ["Ea2", "Sa2", "P"]
    n0 = len(World(tier, init).lib.blocks)
    firsts = [("add", h, f) for h in H for f in (False, True)]
    firsts += [("addl", h, u, f) for h in H for u in U for f in (False, True)] + [("addl", u, h, f) for h in H for u in U for f in (False, True)]
    firsts += [("rep", p, h, f) for p in range(n0) for h in H for f in (False, True)]
    for op1 in firsts:
        for op2 in [None, ("add", "Ea2", False), ("add", "Sa2", True), ("rem", 0), ("rep", 0, "P", True)]:
            w = World(tier, init)
            uni = dict(w.uni)
            uni.update({k: f() for k, f in H.items()})
            lib = w.lib
            case = {"history": [list(init)], "raising": [list(op1), list(op2) if op2 else None], "tier_universe": names(tier)}
            acc.trace()
            acc.case(nontrivial_key=("raising", tuple(init), op1, op2))
            acc.count("raising_histories")
            outcome = []
            for op in (op1, op2):
                if op is None:
                    continue
                try:
                    if op[0] == "add":
                        lib.add(uni[op[1]], fail_on_duplicate_key=op[2])
                    elif op[0] == "addl":
                        lib.add([uni[op[1]], uni[op[2]]], fail_on_duplicate_key=op[3])
                    elif op[0] == "rem":
                        if lib.blocks:
                            lib.remove(lib.blocks[0])
                    elif op[0] == "rep":
                        if op[1] < len(lib.blocks):
                            lib.replace(lib.blocks[op[1]], uni[op[2]], fail_on_duplicate_key=op[3])
                    outcome.append("ok")
                except Exception as e:  # anything: the call is outside the reference model
                    outcome.append(type(e).__name__)
                bad = self_consistent(lib)
                if bad is not None:
                    acc.violation(
                        {"oracle": bad[0], "op": op[0], "after": "a call that may raise anything (hostile block)", "raised": outcome[-1]},
                        {"case": case, "observed": bad[1] + " | blocks=" + repr([_bk(b) for b in lib.blocks]), "expected": "every view describes `blocks` of the same library, whatever the call raised"},
                        size=2,
                    )
                    break
            acc.outcome(("raising", tuple(outcome)))


def _bk(b):
    return f"{type(b).__name__}:{getattr(b, 'key', '')!r}"


def run_shard(shard, tier, acc):
    if shard[0] == "raising":
        return run_raising(tier, INITS[shard[1]], acc)
    if shard[0] == "foreign":
        return run_foreign(tier, INITS[shard[1]], acc)
    if shard[0] == "keytext":
        return run_keytext(tier, shard[1], INITS[shard[2]], acc)
    _, i = shard
    first_ops = [op for op in ops_for(tier, 0) if grows(op) <= maxlen(tier)]
    op1 = first_ops[i]
    L = maxlen(tier)
    depth = 2 if tier == "quick" else 3

    def rec(hist, d):
        w0 = build(tier, hist)
        n = len(w0.lib.blocks)
        k0 = engine.h(canon(w0.lib))
        for op in ops_for(tier, n):
            if n + grows(op) > L:
                continue
            # the pair-list operations are covered by the closure; the guard keeps single-block ops (depth matters here)
            if op[0] in ("addl", "reml", "addgen", "addlazy"):
                continue
            w = build(tier, hist)
            st = w.apply(op, acc, hist)
            if st is None:
                continue
            acc.trace()
            acc.case()
            acc.count("nodedup_histories")
            k1 = engine.h(canon(w.lib))
            acc.states.add(k1)
            acc.transitions.add(engine.h((k0, op, k1)))
            if d + 1 < depth and st:
                rec(hist + [list(op)], d + 1)

    w = World(tier, ())
    if w.apply(op1, acc, [[]]) is not None:
        acc.trace()
        acc.case()
        rec([[], list(op1)], 1)


def replay(case, acc):
    global KEYMAP
    hist = case["history"]
    if "raising" in case:
        return run_raising("quick", tuple(hist[0]), acc)
    tier = "thorough" if "F" in case.get("tier_universe", []) else "quick"
    km = case.get("keymap")
    km = {} if km is None else km
    KEYMAP = dict(KEYMAPS[km]) if isinstance(km, int) else dict(km)
    LIBCLS[0] = SafeLibrary if case.get("library_class") == "SafeLibrary" else Library
    try:
        w = build(tier, [tuple(hist[0])] + [_tup(o) for o in hist[1:]])
        if case.get("op") is not None:
            w.apply(_tup(case["op"]), acc, hist)
    finally:
        KEYMAP = {}
        LIBCLS[0] = Library


def unit_test(case):
    return "# history (initial blocks, then operations) over the universe of mc/checks/c08.py:\n# " + repr(case["history"]) + "\n# failing op: " + repr(case.get("op")) + "\n"


def ENV_SHARDS(tier):
    """The broad, cheap families: run again in a fresh interpreter per environment (engine.run_environments)."""
    return [s for n, s in enumerate(shards('quick')) if s[0] in ("raising", "foreign") or (s[0] == "nodedup" and n % 8 == 0)]

