"""C01 — parsing and re-writing never raise; bad input becomes failed blocks (DESIGN 4/C01)."""
import signal
import time

import bibtexparser
from bibtexparser.library import Library
from bibtexparser.model import ParsingFailedBlock

from .. import bigdocs, spaces
from ..engine import seq_iter, seq_shards

ID = "C01"
OWN_WATCHDOG = True  # hangs are this property's subject: per-case watchdog below
LEAN = True  # cases are distinct by construction; see engine.Acc
RULE = (
    "every token sequence over the splitter alphabet up to the length bound, every combination of <=k token edits of 6 base "
    "documents, and size-scaled families (n blank/comment/value lines, nesting depth n, n entries, n unterminated blocks, ...); "
    "each text goes through parse_string and write_string with the default stacks and with empty stacks. "
    "Non-trivial = the parse produced at least one failed block or >=2 blocks (distinct by text)."
)
ASSUMPTIONS = [
    "'no hang' is decided by a per-case watchdog (120 s quick / 900 s thorough; the largest case needs seconds on a correct tree)",
]
STATIC_SAMPLES = ["a\n" * 3, "@a{k, t = {b@c{d}}}"]

SIZES_QUICK = [1, 10, 100, 990, 1000, 1010, 2000, 10**4]
SIZES_THOROUGH = SIZES_QUICK + [10**5, 10**6]


def bounds(tier):
    return {
        "alphabet": spaces.SIGMA_DOC,
        "max_len": 5 if tier == "quick" else 6,
        "extended_alphabet": spaces.SIGMA_DOC_EXT[len(spaces.SIGMA_DOC):],
        "extended_alphabet_max_len": 3 if tier == "quick" else 5,
        "deviation_bound": 1 if tier == "quick" else 2,
        "family_sizes": SIZES_QUICK if tier == "quick" else SIZES_THOROUGH,
        "families": sorted(FAMILIES),
        "implementation_identifiers": "every attribute name of every bibtexparser module and class (harvested at run time) as entry type, key, field key, string name and bare value",
    }


FAMILIES = {
    # counts of DISTINCT things that end up in one message or one set (n different field keys each repeated, n entries
    # all with the same key, n different @string keys each defined twice, n failed blocks of n different kinds)
    "distinct_repeated_field_keys": lambda n: "@a{k, " + ", ".join(f"f{i} = 1, f{i} = 2" for i in range(n)) + "}",
    "distinct_repeated_field_keys_apart": lambda n: "@a{k, " + ", ".join(f"f{i} = 1" for i in range(n)) + ", " + ", ".join(f"f{i} = 2" for i in range(n)) + "}",
    "distinct_repeated_string_keys": lambda n: "".join(f"@string{{s{i} = {{a}}}}\n" for i in range(n)) * 2 + "@a{k, t = s0}",
    "distinct_repeated_entry_keys": lambda n: "".join(f"@a{{k{i}, t = {{x}}}}\n" for i in range(n)) * 3,
    # runs of blanks / tabs / word characters right after an at-sign that no brace follows (what the block-start
    # pattern has to give up on: time must stay linear in n)
    "at_then_blanks": lambda n: "@" + " " * n + "x",
    "at_word_then_blanks_and_tabs": lambda n: "@article" + " \t" * n + "x\n@a{k}",
    "at_then_word_characters": lambda n: "@" + "a_1" * n + " \t" * (n % 50) + "=",
    "many_at_signs_with_blanks": lambda n: ("@ \t " * n) + "{",
    # n digits as the bare value of a numeric field / of any field / as a month (int() and str() refuse above 4300 digits)
    "digits_in_numeric_fields": lambda n: "@a{k, year = " + "1" * n + ", pages = " + "9" * n + ", note = " + "2" * n + ", month = " + "0" * n + "3}",
    "blank_lines": lambda n: "\n" * n,
    "comment_lines": lambda n: "% c\n" * n,
    "lines_in_value": lambda n: "@a{k, t = {" + "x\n" * n + "}}",
    "lines_in_quoted_value": lambda n: '@a{k, t = "' + "x\n" * n + '"}',
    "lines_in_comment_block": lambda n: "@comment{" + "x\n" * n + "}",
    "lines_in_string": lambda n: '@string{s = "' + "x\n" * n + '"}',
    "lines_in_preamble": lambda n: "@preamble{" + "x\n" * n + "}",
    "lines_in_key": lambda n: "@a{" + "k\n" * n + ", t = 1}",
    "nesting_in_value": lambda n: "@a{k, t = " + "{" * n + "x" + "}" * n + "}",
    "nesting_in_quoted_value": lambda n: '@a{k, t = "' + "{" * n + "x" + "}" * n + '"}',
    "nesting_in_comment_block": lambda n: "@comment{" + "{" * n + "}" * n + "}",
    "nesting_in_string": lambda n: "@string{s = " + "{" * n + "}" * n + "}",
    "nesting_in_preamble": lambda n: "@preamble{" + "{" * n + "}" * n + "}",
    "open_braces_only": lambda n: "@a{k, t = " + "{" * n,
    "close_braces_only": lambda n: "}" * n,
    "entries": lambda n: "".join(f"@a{{k{i}, t = {{v}}, u = 1}}\n" for i in range(n)),
    "same_key_entries": lambda n: "@a{k, t = {v}}\n" * n,
    "strings": lambda n: "".join(f'@string{{s{i} = "v"}}\n' for i in range(n)),
    "fields": lambda n: "@a{k, " + ", ".join(f"f{i} = {i}" for i in range(n)) + "}",
    "dup_fields": lambda n: "@a{k, " + ", ".join("f = 1" for i in range(n)) + "}",
    "concat_pieces": lambda n: "@a{k, t = " + " # ".join('"x"' for i in range(n)) + "}",
    "unterminated_after_lines": lambda n: "x\n" * n + "@a{k, t = {",
    "unterminated_comments": lambda n: "@comment{" * n,
    "unterminated_entries": lambda n: "@a{k,\n" * n,
    "unterminated_strings": lambda n: "@string{\n" * n,
    "failed_blocks": lambda n: "@a{k, a b}\n" * n,
    "one_long_line": lambda n: "x" * n,
    "long_value": lambda n: "@a{k, t = {" + "x" * n + "}}",
    "at_word_no_brace": lambda n: "@" + "w" * n,
    "at_signs": lambda n: "@" * n,
    "at_braces": lambda n: "@{" * n,
    "quotes": lambda n: '"' * n,
    "quotes_in_entry": lambda n: "@a{k, t = " + '"' * n + "}",
    "commas_in_entry": lambda n: "@a{k" + "," * n + "}",
    "equals_in_entry": lambda n: "@a{k, a " + "=" * n + " 1}",
    "backslashes": lambda n: "\\" * n,
    "backslash_newlines": lambda n: "\\\n" * n,
    "crlf_lines": lambda n: "@a{k,\r\n t = {v}\r\n}\r\n" * min(n, 10**5),
    # @string definitions that refer to each other (bare identifiers as values), used by an entry
    "string_case_variants": lambda n: '@string{Abc = "x"}\n@string{ABC = "y"}\n' + "".join("@a{k%d, f = %s}\n" % (i, ["abc", "Abc", "ABC", "aBC"][i % 4]) for i in range(min(n, 1000))),
    "string_self_reference": lambda n: "@string{s = s}\n" + "@a{k%d, f = s}\n" * min(n, 1000),
    "string_cycle": lambda n: "".join("@string{s%d = s%d}\n" % (i, (i + 1) % min(n, 2000)) for i in range(min(n, 2000))) + "@a{k, f = s0, g = s1}",
    "string_chain": lambda n: "".join("@string{s%d = s%d}\n" % (i, i + 1) for i in range(min(n, 2000))) + '@string{s%d = "end"}\n@a{k, f = s0}' % min(n, 2000),
    "string_cycle_after_use": lambda n: "@a{k, f = t0}\n" + "".join("@string{t%d = t%d}\n" % (i, (i + 1) % min(n, 50)) for i in range(min(n, 50))),
}
# after a complete entry as well
PREFIXES = ["", "@a{k0, t = {v}}\n"]


def shards(tier):
    out = [("seq", s) for s in seq_shards(spaces.SIGMA_DOC, 5 if tier == "quick" else 6)]
    out += [("ext", s) for s in seq_shards(spaces.SIGMA_DOC_EXT, 3 if tier == "quick" else 5)]
    out += [("mini", s) for s in seq_shards(spaces.SIGMA_DOC_MINI, 3 if tier == "quick" else 5)]
    out += spaces.deviation_shards(len(spaces.BASE_DOCS), 1 if tier == "quick" else 2)
    out += [("big", n, v) for n in (bigdocs.SIZES_QUICK if tier == "quick" else bigdocs.SIZES_THOROUGH) for v in (0, 1)]
    sizes = SIZES_QUICK if tier == "quick" else SIZES_THOROUGH
    for name in sorted(FAMILIES):
        for n in sizes:
            out.append(("fam", name, n))
    out += [("history", i) for i in range(len(WORKFLOWS))]
    out += [("idents", i) for i in range(IDENT_SHARDS)]
    return out


IDENT_SHARDS = 8


def ident_texts(w):
    """A word the implementation uses for itself, written by a user wherever the grammar takes a name."""
    yield f"@{w}{{k, t = {{v}}}}"
    yield f"@{w}{{{w}, {w} = {w}}}\n@{w.upper()} {{k2, {w.upper()} = 1}}"
    yield f'@string{{{w} = "x"}}\n@a{{k, f = {w}, {w} = f}}'
    yield f"@a{{k0, t = 1}}\n@{w}{{"
    yield f"@{w}{{k, a b}}\n@{w}{{k, a = 1, a = 2}}\n@{w}{{k}}"
    # keys, string names and field keys that differ only in letter case, and the same twice
    yield f"@a{{{w}, f = 1}}\n@a{{{w.swapcase()}, F = 2, f = 3}}\n@string{{{w} = 1}}\n@string{{{w.swapcase()} = 2}}\n@a{{{w}, f = {w.swapcase()}}}"


def _workflows():
    from bibtexparser import middlewares as mw

    return [
        ("names", dict(append_middleware=[mw.SeparateCoAuthors(), mw.SplitNameParts()]), dict(prepend_middleware=[mw.MergeNameParts(), mw.MergeCoAuthors()])),
        ("months+latex", dict(append_middleware=[mw.MonthIntMiddleware(), mw.LatexDecodingMiddleware()]), dict(prepend_middleware=[mw.LatexEncodingMiddleware(), mw.MonthAbbreviationMiddleware()])),
        ("sorting", dict(append_middleware=[mw.NormalizeFieldKeys(), mw.SortFieldsAlphabeticallyMiddleware()]), dict(prepend_middleware=[mw.SortBlocksByTypeAndKeyMiddleware()])),
        ("explicit stacks", dict(parse_stack=[mw.RemoveEnclosingMiddleware()]), dict(unparse_stack=[mw.AddEnclosingMiddleware(True, False, '"')])),
        ("empty additions", dict(append_middleware=[]), dict(prepend_middleware=[])),
        ("tuples and iterators", dict(append_middleware=(mw.NormalizeFieldKeys(), mw.MonthIntMiddleware())), dict(prepend_middleware=iter([mw.MonthLongStringMiddleware()]))),
        ("same types as the default stack", dict(append_middleware=[mw.ResolveStringReferencesMiddleware(), mw.RemoveEnclosingMiddleware(), mw.RemoveEnclosingMiddleware()]), dict(prepend_middleware=[mw.AddEnclosingMiddleware(True, True, "{"), mw.AddEnclosingMiddleware(False, True, '"')])),
    ]


WORKFLOWS = ["names", "months+latex", "sorting", "explicit stacks", "empty additions", "tuples and iterators", "same types as the default stack"]
HISTORY_DOCS = [
    "@article{k, author = {Ada Lovelace and Turing, Alan}, title = {Caf\\'e {T}}, month = jan, year = 1990}\n",
    '@string{s = "x"}\n@book{b, editor = "Knuth, D. E.", publisher = s, month = 3}\n% c\n',
    "@a{bad, author = {A, B, C, D}}\n@b{broken, t = {x\n",
]


def check_history(which, acc):
    """Earlier calls with custom middleware (the documented workflows) must leave nothing behind: plain
    parse_string / write_string calls afterwards behave as in a fresh process (here: do not raise)."""
    import bibtexparser as bp

    name, pkw, wkw = _workflows()[which]
    for doc in HISTORY_DOCS:
        acc.trace(2)
        try:
            lib = bp.parse_string(doc, **pkw)
            bp.write_string(lib, **wkw)
        except Exception as e:
            # parse_string / write_string with shipped middleware on any text: syntax and name errors are failed blocks
            acc.violation(
                {"oracle": "no_exception", "exception": type(e).__name__, "entrypoint": "workflow:" + name, "where": "?"},
                {"case": {"after_workflow": name, "text": doc}, "observed": f"{type(e).__name__}: {str(e)[:200]}", "expected": "Library / str, no exception"},
                size=len(doc),
            )
    texts = list(HISTORY_DOCS) + list(spaces.BASE_DOCS)
    for d in range(len(spaces.BASE_DOCS)):
        for edits, toks in spaces.deviation_iter(("dev", d, 1, 0, 1), spaces.SIGMA_DOC):
            texts.append("".join(toks))
    for text in texts:
        acc.count("plain_calls_after_workflow")
        check_text(text, acc, case={"after_workflow": name, "text": text})


class _Timeout(Exception):
    pass


def _alarm(signum, frame):
    raise _Timeout()


def pipeline(text):
    """The four traces of the property. Returns (libs, outs)."""
    lib1 = bibtexparser.parse_string(text)
    out1 = bibtexparser.write_string(lib1)
    lib2 = bibtexparser.parse_string(text, parse_stack=[])
    out2 = bibtexparser.write_string(lib2, unparse_stack=[])
    return (lib1, lib2), (out1, out2)


def check_text(text, acc, case=None, watchdog=None, label=None):
    _CURRENT[0] = text if len(text) < 5000 else text[:5000]
    case = case if case is not None else {"text": text}
    acc.trace(4)
    stage = "parse_string"
    if watchdog:
        signal.signal(signal.SIGALRM, _alarm)
        signal.alarm(watchdog)
    t0 = time.time()
    try:
        try:
            libs, outs = pipeline(text)
        finally:
            if watchdog:
                signal.alarm(0)
    except _Timeout:
        acc.violation(
            {"oracle": "no_hang", "family": (label or "").split(":")[0]},
            {"case": case, "observed": f"no result after {watchdog}s", "expected": "terminates (seconds)"},
            size=len(text),
        )
        acc.case()
        return
    except BaseException as e:
        import traceback

        tb = traceback.extract_tb(e.__traceback__)
        where = next((f"{f.name}" for f in reversed(tb) if "bibtexparser" in f.filename), "?")
        top = next((f.name for f in tb if "entrypoint" in f.filename), "?")
        acc.violation(
            {"oracle": "no_exception", "exception": type(e).__name__, "entrypoint": top, "where": where},
            {"case": case, "observed": f"{type(e).__name__}: {str(e)[:200]}", "expected": "Library / str, no exception"},
            size=len(text),
        )
        acc.case()
        return
    dt = time.time() - t0
    if label:
        acc.count("family_cases")
        acc.maxof("family_max_ms", int(dt * 1000))
    ok = True
    nfailed = 0
    for lib, out in zip(libs, outs):
        if not isinstance(lib, Library) or not isinstance(out, str):
            acc.violation(
                {"oracle": "result_types"},
                {"case": case, "observed": [type(lib).__name__, type(out).__name__], "expected": ["Library", "str"]},
                size=len(text),
            )
            ok = False
            continue
        pos = 0
        for b in lib.blocks:
            if isinstance(b, ParsingFailedBlock):
                nfailed += 1
                raw = b.raw
                if not isinstance(b.error, Exception) or not isinstance(raw, str) or raw == "":
                    acc.violation(
                        {"oracle": "failed_block_carries_error_and_raw", "block": type(b).__name__},
                        {"case": case, "observed": [repr(b.error)[:80], repr(raw)[:80]], "expected": "an Exception and a non-empty str"},
                        size=len(text),
                    )
                    ok = False
                    continue
                p = text.find(raw, pos)
                if p < 0:
                    p = text.find(raw)
                    if p < 0:
                        acc.violation(
                            {"oracle": "failed_raw_occurs_in_text", "block": type(b).__name__},
                            {"case": case, "observed": raw[:200], "expected": "a substring of the input"},
                            size=len(text),
                        )
                        ok = False
                        continue
                else:
                    pos = p
    lib1 = libs[0]
    kinds = tuple(type(b).__name__ for b in lib1.blocks[:50])
    nontrivial = nfailed > 0 or len(lib1.blocks) >= 2
    acc.case(
        sample=(lambda: {"text": text[:120], "blocks": list(kinds[:8])}) if len(text) < 2000 else None,
        nontrivial_key=(label, len(text)) if label else (text if nontrivial else None),
    )
    s = acc.step(("text", label or text, len(text)), "parse", (kinds, len(lib1.blocks)))
    acc.transition(s, "write", acc.state(("out", len(outs[0]), hash(outs[0]))))
    acc.outcome(kinds)
    return ok


def big_texts(n, v):
    """The size-n document, 60 truncations of it and 60 single-character deletions / insertions at evenly spread
    offsets (so that the damage lands in every kind of position: key, value, comment, between blocks)."""
    text, _ = bigdocs.document(n, v)
    yield text
    L = len(text)
    for k in range(1, 61):
        cut = (L * k) // 61
        yield text[:cut]
        yield text[:cut] + text[cut + 1 :]
        yield text[:cut] + '{"@}'[k % 4] + text[cut:]


_CURRENT = [None]


def run_shard(shard, tier, acc):
    kind = shard[0]
    if kind in ("fam",):
        return _run_shard(shard, tier, acc)
    # enumerations: one watchdog for the whole shard (each case needs microseconds; 30 min means a hang)
    signal.signal(signal.SIGALRM, _alarm)
    signal.alarm(1800)
    try:
        try:
            _run_shard(shard, tier, acc)
        finally:
            signal.alarm(0)
    except _Timeout:
        acc.violation(
            {"oracle": "no_hang", "family": kind},
            {"case": {"text": _CURRENT[0]}, "observed": "shard did not finish within 1800 s while processing this input", "expected": "terminates (microseconds)"},
            size=len(_CURRENT[0] or ""),
        )


def _run_shard(shard, tier, acc):
    kind = shard[0]
    if kind == "seq":
        for toks in seq_iter(spaces.SIGMA_DOC, shard[1]):
            check_text("".join(toks), acc)
    elif kind == "ext":
        for toks in seq_iter(spaces.SIGMA_DOC_EXT, shard[1]):
            check_text("".join(toks), acc)
    elif kind == "mini":
        for toks in seq_iter(spaces.SIGMA_DOC_MINI, shard[1]):
            check_text("".join(toks), acc)
    elif kind == "dev":
        for edits, toks in spaces.deviation_iter(shard, spaces.SIGMA_DOC):
            check_text("".join(toks), acc)
    elif kind == "big":
        for text in big_texts(shard[1], shard[2]):
            acc.count("big_texts")
            check_text(text, acc)
    elif kind == "history":
        check_history(shard[1], acc)
    elif kind == "idents":
        for w in spaces.implementation_identifiers()[shard[1] :: IDENT_SHARDS]:
            for text in ident_texts(w):
                acc.count("identifier_texts")
                check_text(text, acc)
    elif kind == "fam":
        _, name, n = shard
        wd = 120 if tier == "quick" else 900
        for pre in PREFIXES:
            text = pre + FAMILIES[name](n)
            check_text(text, acc, case={"family": name, "n": n, "prefix": pre}, watchdog=wd, label=f"{name}:{n}:{len(pre)}")


def replay(case, acc):
    if "after_workflow" in case:
        check_history(WORKFLOWS.index(case["after_workflow"]), acc)
    elif "family" in case:
        text = case["prefix"] + FAMILIES[case["family"]](case["n"])
        check_text(text, acc, case=case, watchdog=900, label=case["family"])
    else:
        check_text(case["text"], acc, case)


def unit_test(case):
    if "family" in case:
        expr = f"{case['prefix']!r} + FAMILY[{case['family']!r}]({case['n']})  # see mc/checks/c01.py FAMILIES"
    else:
        expr = repr(case["text"])
    return (
        "import bibtexparser\n"
        f"text = {expr}\n"
        "lib = bibtexparser.parse_string(text)\n"
        "assert isinstance(bibtexparser.write_string(lib), str)\n"
        "lib = bibtexparser.parse_string(text, parse_stack=[])\n"
        "assert isinstance(bibtexparser.write_string(lib, unparse_stack=[]), str)\n"
    )


def ENV_SHARDS(tier):
    """The broad, cheap families: run again in a fresh interpreter per environment (engine.run_environments)."""
    return [s for s in shards('quick') if s[0] in ("idents", "ext", "mini", "dev") or (s[0] == "fam" and s[2] <= 100)]

