"""C14 — splitting names and merging them back is an inverse pair through the whole stack (DESIGN 4/C14)."""
import itertools

import bibtexparser
from bibtexparser.middlewares.names import (
    MergeCoAuthors,
    MergeNameParts,
    NameParts,
    SeparateCoAuthors,
    SplitNameParts,
    parse_single_name_into_parts,
    split_multiple_persons_names,
)
from bibtexparser.model import Entry

import copy

from .. import dialect
from .. import refs_names as R
from ..canon import canon
from ..engine import seq_iter, seq_shards
from .c13 import SIGMA

ID = "C14"
RULE = (
    "persons = every valid name over the C13 alphabet up to the length bound with a non-empty last part and no word ending in an odd "
    "number of backslashes; lists of 2-3 persons over a catalogue with one representative per (form, case pattern) class. Two routes: "
    "the function pair (split, parse, merge_last_name_first, join, split, parse) and the full stack parse_string(append=[SeparateCoAuthors, "
    "SplitNameParts]) -> write_string(prepend=[MergeNameParts, MergeCoAuthors]) -> parse again, for author (braced), editor (quoted) and "
    "translator. Non-trivial = person list whose merged text differs from the input (distinct by value)."
)
ASSUMPTIONS = [
    "domain as the property states it; additionally no person is literally named 'and' (the list syntax cannot carry such a name) and, for the "
    "document route, the value and its merged form are values of the dialect (restriction R3: e.g. a value ending in a backslash would escape the closing delimiter; such text cannot be carried by any document this parser reads)",
]
STATIC_SAMPLES = ["AA bb CC dd", "bb CC, AA and {cc} DD"]


def bounds(tier):
    return {
        "alphabet": SIGMA,
        "single_name_max_len": 4 if tier == "quick" else 5,
        "catalogue": len(CATALOGUE),
        "max_list_len": 2 if tier == "quick" else 3,
        "routes": ["function pair", "parse_string/write_string stack (author braced, editor quoted, translator braced)"],
    }


def _catalogue():
    rep = {R.U: "AA", R.L: "bb", R.X: "{cc}"}
    out = []
    for n in (1, 2, 3):
        for pat in itertools.product((R.U, R.L, R.X), repeat=n):
            out.append(" ".join(rep[c] for c in pat))
    out += [
        "AA bb CC dd",
        "AA bb CC dd EE",
        "bb CC, AA",
        "AA, BB",
        "bb cc DD, {\\'E}x",
        "AA bb CC, DD",
        "AA BB, Jr, CC",
        "bb AA, dd, CC~DD",
        "\\'Ee {\\'e}x \\'ee AA",
        "1b AA",
        "AA~bb~CC",
        "{AA bb}, cc",
        "AA  ,  BB",
        # one representative per first character class of the merged 'von Last' part: escape, brace, digit
        "AA \\'Ee",
        "\\'ee bb CC",
        "\\'Ee",
        "AA {cc}",
        "AA 1b",
        "{{AA bb}}",
        "{{AA} {bb}} CC",
        "AA\xa0 bb",  # a no-break space is an ordinary character of a word
        # words by Unicode case class (letters without case, cased non-letters, title-case letters) where they decide the von boundary
        "AA \u2177 DD",
        "AA bb \u4e2d DD",
        "AA \u4e2d bb DD",
        "AA \u01c5 CC",
        "\xaa BB CC",
    ]
    return out


CATALOGUE = _catalogue()


def shards(tier):
    out = [("single", s) for s in seq_shards(SIGMA, 4 if tier == "quick" else 5)]
    out += [("lists", i) for i in range(len(CATALOGUE))]
    out += [("history", 0)]
    out += [("patterns", n, first) for n in range(5, (8 if tier == "quick" else 9)) for first in range(3)]
    return out


def check_history(acc):
    """(a) long-lived copy-mode MergeNameParts / MergeCoAuthors / SplitNameParts / SeparateCoAuthors instances over
    sequences of libraries with failing calls in between; (b) name fields that share one list object: each field is
    merged / split from its own view of the value."""
    from bibtexparser.library import Library
    from bibtexparser.model import Field

    from .. import hostile, leak

    def split_lib(names):
        return lambda: bibtexparser.parse_string("@a{k, author = {%s}, editor = {%s}}" % (" and ".join(names), names[0]), append_middleware=[SeparateCoAuthors(), SplitNameParts()])

    def str_lib(names):
        return lambda: bibtexparser.parse_string("@a{k, author = {%s}, editor = {%s}}" % (" and ".join(names), names[0]))

    # (c) NameParts itself: positional construction in the documented order (first, von, last, jr); copies keep every part
    import copy as _copy

    from bibtexparser.middlewares.names import NameParts

    kw = NameParts(first=["F", "G"], von=["v"], last=["L"], jr=["J"])
    for how, other in (("positional", lambda: NameParts(["F", "G"], ["v"], ["L"], ["J"])), ("copy", lambda: _copy.copy(kw)), ("deepcopy", lambda: _copy.deepcopy(kw)), ("deepcopy of a list", lambda: _copy.deepcopy([kw, kw])[1])):
        acc.trace()
        acc.case(nontrivial_key=("nameparts", how))
        try:
            o = other()
            got = (o.first, o.von, o.last, o.jr, o.merge_last_name_first)
        except Exception as ex:
            acc.exception(ex, {"nameparts": how}, "NameParts " + how)
            continue
        exp = (["F", "G"], ["v"], ["L"], ["J"], kw.merge_last_name_first)
        if got != exp or o != kw:
            acc.violation({"oracle": "nameparts_keep_their_parts", "how": how}, {"case": {"nameparts": how}, "observed": repr(got), "expected": repr(exp)})
    # (d) a NameParts object edited in place between two merges (a corrected typo: p.last[0] = ..., an appended jr): every
    # merge describes the parts as they are now - what a fresh NameParts with those parts gives
    edits = {
        "last[0] = 'Lamport'": lambda p: p.last.__setitem__(0, "Lamport"),
        "first.append('Q.')": lambda p: p.first.append("Q."),
        "von.clear()": lambda p: p.von.clear(),
        "jr.append('III')": lambda p: p.jr.append("III"),
        "first.insert(0, 'A.')": lambda p: p.first.insert(0, "A."),
        "last += ['Jones']": lambda p: p.last.extend(["Jones"]),
        "first = ['Zed'] (assignment)": lambda p: setattr(p, "first", ["Zed"]),
    }
    for name in CATALOGUE[:12]:
        for ename, edit in edits.items():
            for first_merge in ("merge_last_name_first", "merge_first_name_first", "both"):
                case = {"nameparts_edited": name, "edit": ename, "merged_before": first_merge}
                acc.trace(2)
                acc.case(nontrivial_key=("nameparts-edited", name, ename, first_merge))
                try:
                    p = parse_single_name_into_parts(name)
                    _ = [getattr(p, m) for m in (("merge_last_name_first", "merge_first_name_first") if first_merge == "both" else (first_merge,))]
                    edit(p)
                    got = (p.merge_last_name_first, p.merge_first_name_first)
                    q = NameParts(first=list(p.first), von=list(p.von), last=list(p.last), jr=list(p.jr))
                    exp = (q.merge_last_name_first, q.merge_first_name_first)
                except Exception as ex:
                    acc.exception(ex, case, "NameParts edited in place")
                    continue
                if got != exp:
                    acc.violation({"oracle": "merge_describes_the_parts_as_they_are", "edit": ename.split("(")[0].split(" ")[0]}, {"case": case, "observed": list(got), "expected": list(exp)})
    groups = [CATALOGUE[i : i + 3] for i in range(0, 30, 3)]
    P = hostile.libraries() + [str_lib(g) for g in groups[:3]]  # unsplit names make MergeNameParts raise
    for style in ("last", "first"):
        leak.run(lambda: MergeNameParts(style=style, allow_inplace_modification=False), [split_lib(g) for g in groups], acc, f"MergeNameParts({style})", poison=P, judge=leak.copy_judge)
    leak.run(lambda: MergeCoAuthors(allow_inplace_modification=False), [lambda g=g: MergeNameParts().transform(split_lib(g)()) for g in groups], acc, "MergeCoAuthors", poison=P, judge=leak.copy_judge)
    leak.run(lambda: SplitNameParts(allow_inplace_modification=False), [lambda g=g: bibtexparser.parse_string("@a{k, author = {%s}}" % " and ".join(g), append_middleware=[SeparateCoAuthors()]) for g in groups], acc, "SplitNameParts", poison=P, judge=leak.copy_judge)
    # (a') the public `style` attribute set after the instance was used = the constructor argument (read at every call)
    for g in groups + [["Brinch Hansen, Per", "Ford, Jr., Henry"], ["de la Vall{\\'e}e Poussin, Charles Louis"]]:
        for first, then in (("first", "last"), ("last", "first")):
            acc.trace(3)
            acc.case(nontrivial_key=("style-attribute", tuple(g), first))
            try:
                inst = MergeNameParts(style=first)
                inst.transform(split_lib(g)())
                inst.style = then
                got = [f.value for f in inst.transform(split_lib(g)()).entries[0].fields]
                exp = [f.value for f in MergeNameParts(style=then).transform(split_lib(g)()).entries[0].fields]
            except Exception as ex:
                acc.exception(ex, {"style_attribute": list(g), "from": first}, "MergeNameParts with the style attribute set later")
                continue
            if got != exp:
                acc.violation({"oracle": "attribute_set_after_use_equals_constructor_argument", "middleware": "MergeNameParts"}, {"case": {"style_attribute": list(g), "from": first, "to": then}, "observed": got, "expected": exp})
    # (b) one list object held by two fields (chapter.editor = book.author)
    for inplace in (True, False):
        for g in groups:
            lib = split_lib(g)()
            e = lib.entries[0]
            shared = e.fields_dict["author"].value
            e.set_field(Field("editor", shared))
            e2 = Entry("b", "k2", [Field("author", shared), Field("translator", list(shared))])
            lib.add(e2)
            expect = [p.merge_last_name_first for p in shared]
            case = {"shared_list": list(g), "inplace": inplace}
            acc.trace()
            acc.case(nontrivial_key=("shared", tuple(g), inplace))
            try:
                out = MergeNameParts(allow_inplace_modification=inplace).transform(lib)
                got = [f.value for b in out.entries for f in b.fields]
            except Exception as ex:
                acc.exception(ex, case, "MergeNameParts on fields sharing one list")
                continue
            if any(v != expect for v in got):
                acc.violation(
                    {"oracle": "each_field_merged_from_its_own_value", "inplace": inplace},
                    {"case": case, "observed": got, "expected": [expect] * len(got)},
                )


def in_domain(name):
    """valid, non-empty last, no word ending in an odd number of backslashes, no word literally 'and'."""
    try:
        secs = R.sections_of(name)
    except R.Invalid:
        return False
    if not secs or not secs[0]:
        return False
    for s in secs:
        for w in s:
            t = len(w) - len(w.rstrip("\\"))
            if t % 2 == 1:
                return False
            if w.lower() == "and":
                return False
    return True


def parts_list(value):
    return [parse_single_name_into_parts(n) for n in split_multiple_persons_names(value)]


def show(pl):
    return [dict(first=p.first, von=p.von, last=p.last, jr=p.jr) if isinstance(p, NameParts) else repr(p) for p in pl]


LIST_SEPS = [" and ", "\nand ", " AND\n", "\tand\t", " and\r\n    ", "\rAnd "]  # (CR, alone and in CRLF, is white space like LF)


def check_value(names, acc, do_stack=True, case=None, sep=" and "):
    value = sep.join(names)
    case = case if case is not None else {"names": list(names), "sep": sep}
    # ---- function pair
    acc.trace()
    try:
        p1_live = parts_list(value)
        p1 = copy.deepcopy(p1_live)
        merged = " and ".join(p.merge_last_name_first for p in p1)
        # the parsed parts belong to the caller: editing them (abbreviating, decoding in place, ...) before the merged
        # text is split again must not change what that split returns
        for p in p1_live:
            p.first[:] = [w[:1] + "." for w in p.first]
            p.last.append("<edited>")
        p2 = parts_list(merged)
    except Exception as e:
        acc.exception(e, case, "split/parse/merge", size=len(value))
        acc.case()
        return
    nontrivial = merged != value
    acc.case(sample=lambda: {"value": value, "merged": merged}, nontrivial_key=value if nontrivial else None)
    acc.step(("value", value), "split+merge", ("merged", merged))
    acc.outcome(len(p1))
    if len(p1) != len(names):
        # the harness' own precondition (each catalogue name is one person) failed: C12's subject, not C14's
        acc.count("list_not_split_as_built")
    if p2 != p1:
        acc.violation(
            {"oracle": "function_pair_inverse", "persons": min(len(p1), 3)},
            {"case": case, "observed": show(p2), "expected": show(p1), "merged": merged},
            size=len(value),
        )
        return
    # ---- whole stack
    if not do_stack or value.strip() == "":
        return
    # a value ending in a backslash is written with a blank before the closing delimiter (the dialect's escape
    # convention R3: a delimiter directly after a backslash is a character); the writer does the same (F26, F32)
    pad = lambda t: t + " " if t.endswith("\\") else t
    import re as _re

    routes = [("author", "{}"), ("editor", '""'), ("translator", "{}")]
    if _re.fullmatch(r"[A-Za-z]+( +[A-Za-z]+)*", value):
        routes.append(("author", ("", "")))  # written bare in the source (the parser takes it as it stands; no enclosing is recorded)
    for fld, (o, c) in routes:
        if ((o, c) != ("", "") and not dialect.is_value(f"{o}{pad(value)}{c}")) or not dialect.is_value(f"{o or '{'}{pad(merged)}{c or '}'}"):
            # the two escape conventions differ (e.g. '\\\\{}' is balanced for the name code but not for the
            # dialect, R3): such a value cannot be written into a document as it stands
            acc.count("value_not_embeddable")
            continue
        doc = f"@article{{k, title = {{T and U}}, {fld} = {o}{pad(value)}{c}, year = 1999}}"
        if fld == "translator":
            # a second name field, and one middleware instance per name field (two instances of each class in a stack)
            doc = f"@article{{k, title = {{T and U}}, author = {{Zed Young and de la Wu, Xavier}}, {fld} = {o}{pad(value)}{c}, year = 1999}}"
            per_field = lambda cls: [cls(name_fields=("author",)), cls(name_fields=("editor", "translator"))]
            fwd = lambda: per_field(SeparateCoAuthors) + per_field(SplitNameParts)
            bwd = lambda: per_field(MergeNameParts) + per_field(MergeCoAuthors)
        else:
            fwd = lambda: [SeparateCoAuthors(), SplitNameParts()]
            bwd = lambda: [MergeNameParts(), MergeCoAuthors()]
        acc.trace()
        try:
            # (the stacks as a list, a tuple or a one-shot iterator: all are the documented Iterable)
            box = {"author": list, "editor": tuple, "translator": iter}[fld]
            lib1 = bibtexparser.parse_string(doc, append_middleware=box(fwd()))
            # the prepended (in-place) middlewares may rewrite lib1 while writing: keep what was parsed
            lib1_snapshot = copy.deepcopy(lib1)
            text = bibtexparser.write_string(lib1, prepend_middleware=box(bwd()))
            lib2 = bibtexparser.parse_string(text, append_middleware=box(fwd()))
        except Exception as e:
            acc.exception(e, case, "parse_string/write_string with name middlewares", size=len(value))
            continue
        ok = (
            len(lib1.blocks) == 1
            and len(lib2.blocks) == 1
            and isinstance(lib1.blocks[0], Entry)
            and isinstance(lib2.blocks[0], Entry)
        )
        lib1 = lib1_snapshot
        if ok:
            e1, e2 = lib1.blocks[0], lib2.blocks[0]
            ok = (
                [f.key for f in e1.fields] == [f.key for f in e2.fields]
                and e1.fields_dict[fld].value == e2.fields_dict[fld].value
                and e1.fields_dict[fld].value == p1
                and all(e1.fields_dict[k].value == e2.fields_dict[k].value for k in ("title", "year") + (("author",) if fld == "translator" else ()))
                and (fld != "translator" or (isinstance(e1.fields_dict["author"].value, list) and len(e1.fields_dict["author"].value) == 2 and e1.fields_dict["author"].value[1].von == ["de", "la"]))
                and (e1.entry_type, e1.key) == (e2.entry_type, e2.key)
            )
        acc.step(("doc", doc), "parse-write-parse", ("text", text))
        if not ok:
            acc.violation(
                {"oracle": "stack_inverse", "field": fld},
                {
                    "case": case,
                    "document": doc,
                    "written": text,
                    "observed": [type(b).__name__ for b in lib2.blocks] + [show(b.fields_dict[fld].value) if isinstance(b, Entry) and fld in b.fields_dict and isinstance(b.fields_dict[fld].value, list) else None for b in lib2.blocks],
                    "expected": show(p1),
                },
                size=len(value),
            )
            return


def run_shard(shard, tier, acc):
    kind = shard[0]
    if kind == "history":
        return check_history(acc)
    if kind == "patterns":
        # names of middling length: every case pattern of 5..7 (thorough ..8) words with no, one or two commas
        _, n, first = shard
        rep = ["AA", "bb", "{cc}"]
        for pat in itertools.product(range(3), repeat=n - 1):
            words = [rep[first]] + [rep[i] for i in pat]
            for commas in [()] + [(i,) for i in range(1, n)] + [(i, j) for i in range(1, n) for j in range(i + 1, n)]:
                name = "".join((("," if k in commas else "") + " " if k else "") + w for k, w in enumerate(words))
                if not in_domain(name):
                    acc.count("outside_domain")
                    continue
                acc.count("pattern_names")
                check_value([name], acc, do_stack=(len(commas) < 2 or n == 5))
        return
    if kind == "single":
        for toks in seq_iter(SIGMA, shard[1]):
            name = "".join(toks)
            if not in_domain(name):
                acc.count("outside_domain")
                continue
            check_value([name], acc, do_stack=True)
    else:
        first = CATALOGUE[shard[1]]
        maxn = 2 if tier == "quick" else 3
        for n in range(2, maxn + 1):
            for rest in itertools.product(CATALOGUE, repeat=n - 1):
                for sep in LIST_SEPS:
                    acc.count("catalogue_lists")
                    check_value((first,) + rest, acc, do_stack=(sep == " and " or n == 2), sep=sep)


def replay(case, acc):
    if "names" not in case:
        return check_history(acc)
    check_value(case["names"], acc, True, case, sep=case.get("sep", " and "))


def unit_test(case):
    return (
        "from bibtexparser.middlewares.names import split_multiple_persons_names as split, parse_single_name_into_parts as parse\n"
        f"value = ' and '.join({case['names']!r})\n"
        "p1 = [parse(n) for n in split(value)]\n"
        "merged = ' and '.join(p.merge_last_name_first for p in p1)\n"
        "assert [parse(n) for n in split(merged)] == p1, merged\n"
    )


def ENV_SHARDS(tier):
    """The broad, cheap families: run again in a fresh interpreter per environment (engine.run_environments)."""
    return [s for s in shards('quick') if s[0] == "history" or (s[0] == "lists" and s[1] < 6)]

