"""Reference models for the name code (C12, C13, C14), written from the property statements and
BibTeX's documented rules (Tame the Beast, section 11; bibtex.web `von_token_found`,
`von_name_ends_and_last_name_starts_stuff`), not from the implementation.  Validated by
`./check selftest` against the repository's BibTeX-derived corpora before use.
"""

CO_WS = " \r\n\t"  # the co-author code documents exactly this set
NAME_WS = " \r\n\t~"  # word separators inside one name ('~' is a tie: separates words, never names)


# ----------------------------------------------------------------------------------------------
# C12: co-author splitting


def balanced(s):
    """Brace-balanced under the escape convention (a backslash and the character after it are ordinary)."""
    depth = 0
    i = 0
    n = len(s)
    while i < n:
        c = s[i]
        if c == "\\":
            i += 2
            continue
        if c == "{":
            depth += 1
        elif c == "}":
            depth -= 1
            if depth < 0:
                return False
        i += 1
    return depth == 0


def never_negative(s):
    """Like balanced(), but groups may stay open at the end: the brace depth is defined at every position (never below
    zero), which is all the separator rule needs ('at brace depth 0')."""
    depth = 0
    i = 0
    n = len(s)
    while i < n:
        c = s[i]
        if c == "\\":
            i += 2
            continue
        if c == "{":
            depth += 1
        elif c == "}":
            depth -= 1
            if depth < 0:
                return False
        i += 1
    return True


def words_depth0(s, ws):
    """[(start, end)] of maximal runs of non-whitespace where whitespace only counts at brace depth 0
    and escaped characters are ordinary."""
    out = []
    depth = 0
    i = 0
    n = len(s)
    start = None
    while i < n:
        c = s[i]
        if c == "\\":
            if start is None:
                start = i
            i += 2
            continue
        if c == "{":
            depth += 1
        elif c == "}":
            if depth:
                depth -= 1
        if depth == 0 and c in ws and c not in "{}":
            if start is not None:
                out.append((start, i))
                start = None
        elif start is None:
            start = i
        i += 1
    if start is not None:
        out.append((start, min(i, n)))
    return out


def split_coauthors(s):
    """Pieces of a name list: split only at a top-level word 'and' (any case) that has a name before it
    and a word after it."""
    s = s.strip(CO_WS)
    if not s:
        return []
    spans = words_depth0(s, CO_WS)
    pieces = []
    cur = []  # spans of the current piece
    for n, (a, b) in enumerate(spans):
        w = s[a:b]
        if w.lower() == "and" and cur and n + 1 < len(spans):
            pieces.append(s[cur[0][0] : cur[-1][1]])
            cur = []
        else:
            cur.append((a, b))
    if cur:
        pieces.append(s[cur[0][0] : cur[-1][1]])
    return pieces


# ----------------------------------------------------------------------------------------------
# C13: one name -> sections of words with cases

U, L, X = 1, 0, -1  # upper, lower, caseless


class Invalid(Exception):
    pass


def word_case(w):
    """BibTeX: the first letter at brace depth 0 decides; a group starting with '{\\' is a special
    character whose first letter after the control sequence decides; other groups are skipped."""
    i = 0
    n = len(w)
    while i < n:
        c = w[i]
        if c == "\\":
            if i + 1 < n and w[i + 1].isalpha():
                return U if w[i + 1].isupper() else L
            i += 2
            continue
        if c == "{":
            if i + 1 < n and w[i + 1] == "\\":
                j = i + 2
                if j < n and w[j].isalpha():
                    while j < n and w[j].isalpha():
                        j += 1
                else:
                    j += 1
                d = 1
                while j < n and d > 0:
                    ch = w[j]
                    if ch == "\\" and j + 1 < n and w[j + 1] in "{}":
                        j += 2  # escape convention (R3): a brace preceded by a backslash is a character, not a delimiter
                        continue
                    if ch == "{":
                        d += 1
                    elif ch == "}":
                        d -= 1
                    elif ch.isalpha():
                        return U if ch.isupper() else L
                    j += 1
                i = j
                continue
            d = 1
            i += 1
            while i < n and d > 0:
                if w[i] == "\\":
                    i += 2
                    continue
                if w[i] == "{":
                    d += 1
                elif w[i] == "}":
                    d -= 1
                i += 1
            continue
        if c.isalpha():
            return U if c.isupper() else L
        i += 1
    return X


def sections_of(name):
    """Split a name into comma sections of words (depth-0 commas / whitespace / ties).
    Raises Invalid for unbalanced braces, more than two commas, or a trailing comma."""
    if not balanced_strict(name):
        raise Invalid("unbalanced braces")
    sections = [[]]
    depth = 0
    i = 0
    n = len(name)
    start = None

    def close(end):
        nonlocal start
        if start is not None:
            sections[-1].append(name[start:end])
            start = None

    while i < n:
        c = name[i]
        if c == "\\" and i + 1 < n and name[i + 1] not in NAME_WS:
            if start is None:
                start = i
            i += 2
            continue
        if c == "{":
            depth += 1
        elif c == "}":
            depth -= 1
        if depth == 0 and c not in "{}" and (c in NAME_WS or c == ","):
            close(i)
            if c == ",":
                sections.append([])
        elif start is None:
            start = i
        i += 1
    close(n)
    if len(sections) > 3:
        raise Invalid("too many commas")
    if len(sections) > 1 and not sections[-1]:
        raise Invalid("trailing comma")
    return sections


def balanced_strict(s):
    """Balanced where a backslash escapes the next character unless that character is whitespace
    (BibTeX does not allow escaping whitespace) or the backslash is the last character."""
    depth = 0
    i = 0
    n = len(s)
    while i < n:
        c = s[i]
        if c == "\\" and i + 1 < n and s[i + 1] not in NAME_WS:
            i += 2
            continue
        if c == "{":
            depth += 1
        elif c == "}":
            depth -= 1
            if depth < 0:
                return False
        i += 1
    return depth == 0


def partition(sections, cases):
    """The property's sentence.  sections: list of word lists; cases: parallel lists of U/L/X.
    Returns dict(first, von, last, jr)."""
    if not any(sections):
        return dict(first=[], von=[], last=[], jr=[])
    if len(sections) == 1:
        w, c = sections[0], cases[0]
        n = len(w)
        if n == 1:
            return dict(first=[], von=[], last=list(w), jr=[])
        if n == 2:
            return dict(first=w[:1], von=[], last=w[1:], jr=[])
        lows = [i for i in range(n - 1) if c[i] == L]
        if not lows:
            return dict(first=w[: n - 1], von=[], last=w[n - 1 :], jr=[])
        fs = 0
        while fs < n - 1 and c[fs] != L:
            fs += 1
        ve = lows[-1]
        return dict(first=w[:fs], von=w[fs : ve + 1], last=w[ve + 1 :], jr=[])
    w, c = sections[0], cases[0]
    n = len(w)
    lows = [i for i in range(n - 1) if c[i] == L]
    if lows:
        von, last = w[: lows[-1] + 1], w[lows[-1] + 1 :]
    else:
        von, last = [], list(w)
    if len(sections) == 2:
        return dict(first=list(sections[1]), von=von, last=last, jr=[])
    return dict(first=list(sections[2]), von=von, last=last, jr=list(sections[1]))


def name_parts(name):
    """Transcription route: characters -> sections -> cases -> partition.  Raises Invalid."""
    secs = sections_of(name)
    if len(secs) == 1 and not secs[0]:
        return dict(first=[], von=[], last=[], jr=[])
    cases = [[word_case(w) for w in s] for s in secs]
    return partition(secs, cases)


def has_empty_leading_section(name):
    """', BB' or 'AA, , BB' style names with an empty von-Last section: neither listed as invalid by the
    property nor given a meaning by it."""
    try:
        secs = sections_of(name)
    except Invalid:
        return False
    return len(secs) > 1 and not secs[0]
