"""Validation of the reference models against ground truth shipped with the repository (DESIGN 6)."""
import importlib
import os
import sys

from . import REPO


def _corpus():
    # the corpora live in the repository's own test module, produced by real BibTeX (see its docstrings)
    if REPO not in sys.path:
        sys.path.insert(0, REPO)
    return importlib.import_module("tests.middleware_tests.test_names")


def _param_values(fn, idx=0):
    mark = [m for m in fn.pytestmark if m.name == "parametrize"][idx]
    vals = []
    for v in mark.args[1]:
        vals.append(v.values if hasattr(v, "values") else v)
    return vals


def run():
    from . import dialect, refs_names as R

    failures = 0
    t = _corpus()
    # co-author reference vs the 44+ BibTeX-derived splits
    cases = _param_values(t.test_split_coauthors_consistent_with_bibtex)
    bad = [(s, exp, R.split_coauthors(s)) for s, exp in cases if R.split_coauthors(s) != exp]
    print(f"selftest: co-author reference vs corpus: {len(cases) - len(bad)}/{len(cases)} agree")
    for b in bad[:5]:
        print("   MISMATCH", b)
    failures += len(bad)
    # name-part transcription vs the regular corpus
    reg = t.REGULAR_NAME_PARTS_PARSING_TEST_CASES
    bad = []
    for name, exp in reg:
        try:
            got = R.name_parts(name)
        except R.Invalid as e:
            got = f"Invalid({e})"
        if got != exp:
            bad.append((name, exp, got))
    print(f"selftest: name-part transcription vs corpus: {len(reg) - len(bad)}/{len(reg)} agree")
    for b in bad[:8]:
        print("   MISMATCH", b)
    failures += len(bad)
    # invalid names
    inv = _param_values(t.test_name_splitting_strict_mode)
    bad = []
    for name, reason in inv:
        try:
            R.name_parts(name)
            bad.append((name, reason))
        except R.Invalid:
            pass
    print(f"selftest: invalid-name corpus: {len(inv) - len(bad)}/{len(inv)} rejected")
    failures += len(bad)
    ws = _param_values(t.test_name_splitting_whitespace_inputs)
    bad = [n for (n,) in ws if R.name_parts(n) != dict(first=[], von=[], last=[], jr=[])]
    print(f"selftest: whitespace-only names: {len(ws) - len(bad)}/{len(ws)} empty")
    failures += len(bad)

    # dialect recogniser vs the repository's declared-valid snippets and edge-case values
    res = importlib.import_module("tests.resources")
    bad = [s for s in res.VALID_BIBTEX_SNIPPETS if dialect.recognise(s) is None]
    print(f"selftest: recogniser accepts VALID_BIBTEX_SNIPPETS: {len(res.VALID_BIBTEX_SNIPPETS) - len(bad)}/{len(res.VALID_BIBTEX_SNIPPETS)}")
    failures += len(bad)
    n = ok = 0
    for v in res.EDGE_CASE_VALUES:
        for enc in ('"{0}"', "{{{0}}}"):
            n += 1
            val = enc.format(v)
            r = dialect.recognise(f"@article{{k, f = {val}, g = 1}}")
            if r == [("entry", "article", "k", (("f", val), ("g", "1")))]:
                ok += 1
            else:
                print("   MISMATCH edge value", repr(val), r)
    print(f"selftest: recogniser on EDGE_CASE_VALUES x enclosings: {ok}/{n}")
    failures += n - ok
    with open(os.path.join(REPO, "examples", "bibtex.bib")) as f:
        ex = f.read()
    r = dialect.recognise(ex)
    print(f"selftest: recogniser on examples/bibtex.bib: {'rejected' if r is None else str(len(r)) + ' blocks'}")
    failures += r is None
    return failures
