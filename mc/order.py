"""What a configuration of a middleware does must not depend on which other configurations were constructed (and used)
before it in the same process: module-level tables, memoised helpers and caches keyed by less than the whole configuration
are state that survives every fresh *object*.

Reference: each configuration constructed FIRST in a fresh interpreter of its own (one child process per configuration).
Exploration: in this process, every ordered pair (A constructed and used, then B constructed and used) of one group.
A check module that uses this provides ORDER_CONFIGS (JSON-able tuples) and order_behaviour(cfg) -> JSON-able."""
import json
import os
import subprocess
import sys
from concurrent.futures import ThreadPoolExecutor

_SCRIPT = """
import sys, json, importlib
sys.path.insert(0, sys.argv[1])
sys.path.insert(0, sys.argv[2])
import logging; logging.disable(logging.CRITICAL)
mod = importlib.import_module(sys.argv[3])
print(json.dumps(mod.order_behaviour(json.loads(sys.argv[4]))))
"""


def _tuplify(x):
    return tuple(_tuplify(i) for i in x) if isinstance(x, list) else x


def fresh_reference(modname, cfg):
    from . import REPO

    here = os.path.dirname(os.path.dirname(os.path.abspath(__file__)))
    r = subprocess.run([sys.executable, "-c", _SCRIPT, REPO, here, modname, json.dumps(cfg)], capture_output=True, text=True, timeout=600, env=dict(os.environ, VERIF_REPO=REPO))
    if r.returncode != 0:
        raise RuntimeError(f"fresh interpreter for {cfg}: {r.stderr.strip().splitlines()[-1][:300] if r.stderr.strip() else r.returncode}")
    return json.loads(r.stdout)


def run(mod, acc, group=lambda cfg: cfg[0], label="construction_order"):
    configs = [tuple(c) for c in mod.ORDER_CONFIGS]
    try:
        with ThreadPoolExecutor(8) as ex:
            refs = list(ex.map(lambda c: fresh_reference(mod.__name__, c), configs))
    except Exception as e:
        acc.harness_error(repr(e))
        return
    ref = dict(zip(configs, refs))
    for a in configs:
        for b in configs:
            if group(a) != group(b):
                continue
            acc.trace(2)
            acc.case(nontrivial_key=(label, a, b))
            acc.count("construction_orders")
            case = {label: [list(a), list(b)]}
            try:
                mod.order_behaviour(list(a))
                got = json.loads(json.dumps(mod.order_behaviour(list(b))))
            except Exception as ex:
                acc.exception(ex, case, "construct A, use it, construct B, use it")
                continue
            acc.step(("constructed", a), ("then", b), hash(repr(got)))
            if got != ref[b]:
                acc.violation(
                    {"oracle": "behaviour_independent_of_earlier_constructions", "kind": str(group(b))},
                    {"case": case, "observed": got, "expected": ref[b]},
                )
