"""Alphabets and structured input spaces shared by the splitter checks (DESIGN 3.2, 2.2)."""
import itertools
import re

# simplest first
SIGMA_DOC = ["k", " ", "\n", ",", "=", "{", "}", '"', "#", "1", "s", "\\", "@",
             "@article{", "@comment{", "@string{", "@preamble{"]
SIGMA_DOC_EXT = SIGMA_DOC + ["\r\n", "\xa0", "é", "\x0c", " ", "\u0130", "\ufb01", "\ufeff", "e\u0301"]  # (U+0130, the ligature: lower() / upper() change their length; a byte-order mark; a decomposed letter)
# characters that mean something to a template, a %-format or a regular expression, next to the structural core
SIGMA_DOC_MINI = ["k", "\n", ",", "=", "{", "}", '"', "@article{", "@comment{", "%s", "%", "{0}", "{n}", "\\1", ".*", "(", "[", "$", "|", "+?"]
# 12-token core for the deepest runs
SIGMA_DOC_CORE = ["k", " ", "\n", ",", "=", "{", "}", '"', "\\", "@", "@article{", "@comment{"]

SIGMA_VAL = ["a", " ", ",", "=", "{", "}", '"', "#", "1", "\n", "\\", "@", "@x{"]


def render(tokens):
    return "".join(tokens)


# Realistic base documents for deviation bounding: short but covering every block kind,
# quoted / braced / concatenated / multi-line values, comments between blocks.
BASE_DOCS = [
    '@article{key1,\n  title = {A {B} c},\n  year = 1990,\n}\n',
    '% comment\n@string{s = "x"}\n@book{k2, a = s # " y", b = "q{"}r"}\n',
    '@comment{c {d}}\n\n@preamble{"p"}\ntext\n@misc{k3}\n',
    '@a{k,\n t = "x, y = z",\n u = {v\n w}\n}\n@b{j, f = 1}',
    '@article{dup, a = {1}, a = {2}}\n@article{dup, b = "3"}\n@string{x = {y}}\n',
    'free @ text\n@inproceedings{k-5:x, author = {A and B}, pages = {1--2} }\n% end',
]

_TOK = re.compile(r"@\w*[ \t]*\{|\w+|\r\n|.", re.S)


def tokenize(text):
    return _TOK.findall(text)


def single_edits(tokens, alphabet):
    """All single-token edits (delete, insert, replace) of a token list, as (kind, pos, tok)."""
    n = len(tokens)
    for i in range(n):
        yield ("del", i, None)
    for i in range(n + 1):
        for a in alphabet:
            yield ("ins", i, a)
    for i in range(n):
        for a in alphabet:
            if a != tokens[i]:
                yield ("rep", i, a)


def apply_edits(tokens, edits):
    """Apply edits (positions refer to the ORIGINAL token list) right-to-left so they commute."""
    toks = list(tokens)
    for kind, pos, tok in sorted(edits, key=lambda e: (-e[1], e[0] != "ins")):
        if kind == "del":
            del toks[pos]
        elif kind == "ins":
            toks.insert(pos, tok)
        else:
            toks[pos] = tok
    return toks


def deviation_shards(n_docs, k):
    """(doc index, k, first-edit stripe) shards."""
    out = []
    for d in range(n_docs):
        out.append(("dev", d, 0, 0, 1))
        if k >= 1:
            out.append(("dev", d, 1, 0, 1))
        if k >= 2:
            for s in range(32):
                out.append(("dev", d, 2, s, 32))
    return out


def deviation_iter(shard, alphabet):
    """Yield (edits, tokens) for every combination of exactly k edits at distinct, ordered positions."""
    _, d, k, stripe, nstripes = shard
    base = tokenize(BASE_DOCS[d])
    if k == 0:
        yield (), base
        return
    edits = list(single_edits(base, alphabet))
    if k == 1:
        for e in edits:
            yield (e,), apply_edits(base, [e])
        return
    for i, e1 in enumerate(edits):
        if i % nstripes != stripe:
            continue
        for e2 in edits[i + 1 :]:
            # two edits that rewrite the same original token are the same as one edit
            if e1[1] == e2[1] and e1[0] != "ins" and e2[0] != "ins":
                continue
            yield (e1, e2), apply_edits(base, [e1, e2])


# ---------------------------------------------------------------------------------------------
# exact token-edit balls (deviation bounding for short structured strings: names, values)


def _neighbours(toks, alphabet):
    n = len(toks)
    for i in range(n):
        yield toks[:i] + toks[i + 1 :]
    for i in range(n + 1):
        for a in alphabet:
            yield toks[:i] + (a,) + toks[i:]
    for i in range(n):
        for a in alphabet:
            if a != toks[i]:
                yield toks[:i] + (a,) + toks[i + 1 :]


def ball_shards(nbases, k, nstripes=16):
    return [("ball", b, k, s, nstripes) for b in range(nbases) for s in range(nstripes if k >= 2 else 1)]


def ball_iter(base, alphabet, shard):
    """All token tuples within k single-token edits (delete / insert / replace) of `base`, each at most
    once per shard; the first-level neighbours are striped over the shards."""
    _, _, k, stripe, nstripes = shard
    base = tuple(base)
    seen = {base}
    if stripe == 0:
        yield base
    if k == 0:
        return
    level1 = []
    for t in _neighbours(base, alphabet):
        if t not in seen:
            seen.add(t)
            level1.append(t)
    if stripe == 0:
        yield from level1
    frontier = [t for i, t in enumerate(level1) if i % nstripes == stripe]
    for _ in range(k - 1):
        nxt = []
        for t in frontier:
            for u in _neighbours(t, alphabet):
                if u not in seen:
                    seen.add(u)
                    nxt.append(u)
                    yield u
        frontier = nxt


def implementation_identifiers():
    """Words the implementation uses for itself, harvested from the tree under check at run time: every attribute name of
    every bibtexparser module and class (and the names with their leading underscores and their `_handle_` /
    `transform_` / `_is_` ... prefixes taken off), lower-cased as well, plus Python's own reserved attribute words.  A user
    may spell an entry type, a key, a field key or a string name like any of them: 'one input per shortcut one can see in
    the code' (dispatch by name, getattr / setattr / __dict__ / format(**fields) / keyword arguments built from text)."""
    import importlib
    import inspect
    import pkgutil

    import bibtexparser

    names = set()
    mods = [bibtexparser]
    for info in pkgutil.walk_packages(bibtexparser.__path__, "bibtexparser."):
        try:
            mods.append(importlib.import_module(info.name))
        except Exception:
            pass
    for mod in mods:
        for name, obj in vars(mod).items():
            names.add(name)
            if inspect.isclass(obj) and getattr(obj, "__module__", "").startswith("bibtexparser"):
                for klass in obj.__mro__:
                    names.update(vars(klass).keys())
    out = set()
    for n in names:
        stripped = n.strip("_")
        out.update((n, stripped, stripped.lower()))
        for sep in ("handle_", "transform_", "is_", "get_", "set_", "move_to_", "parse_", "split_", "add_", "cast_to_"):
            if stripped.startswith(sep):
                out.add(stripped[len(sep):])
        out.update(stripped.split("_"))
    out.update(["self", "cls", "None", "True", "False", "class", "dict", "key", "value", "fields", "raw", "error", "type", "id", "ID", "ENTRYTYPE", "__class__", "__dict__", "__init__", "__eq__", "__hash__", "__deepcopy__", "__slots__"])
    return sorted(w for w in out if w and re.fullmatch(r"\w+", w))
