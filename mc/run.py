"""CLI: python -m mc.run Cxx --tier quick|thorough | --replay FILE ;  python -m mc.run selftest"""
import argparse
import os
import sys


def main(argv=None):
    ap = argparse.ArgumentParser()
    ap.add_argument("what", help="property id (C01..C20) or 'selftest'")
    ap.add_argument("--tier", default=os.environ.get("VERIF_TIER", "quick"), choices=["quick", "thorough"])
    ap.add_argument("--replay")
    ap.add_argument("--procs", type=int)
    args = ap.parse_args(argv)
    try:
        seed = int(os.environ.get("VERIF_SEED", "0"))
    except ValueError:
        seed = 0
    from . import engine

    if args.what == "selftest":
        from . import selftest

        return selftest.main()
    modname = f"mc.checks.{args.what.lower()}"
    if args.replay:
        return engine.run_replay(modname, args.replay)
    return engine.run_check(modname, args.tier, seed, procs=args.procs)


if __name__ == "__main__":
    sys.exit(main())
