"""Child side of the environment runs (engine.run_environments): python [flags] -m mc.envworker MODNAME TIER SEED LABEL OUT
with the JSON list of shards on stdin.  Runs the shards one after the other in THIS interpreter - whose hash seed, locale,
default text encoding, import order and garbage-collector setting were chosen by the parent - and pickles the accumulators."""
import json
import os
import pickle
import sys


def _prepare():
    what = os.environ.get("VERIF_ENV_PREPARE", "")
    if "gc-off" in what:
        import gc

        gc.disable()
    if "gc-eager" in what:
        import gc

        gc.set_threshold(20, 3, 3)
    if "imports-reversed" in what:
        # every submodule of the library imported on its own, last name first, before anything else touches the package
        import importlib
        import pkgutil

        from . import REPO  # (binds sys.path to the tree under check)

        names = []
        for root in ("bibtexparser",):
            pkg_dir = os.path.join(REPO, root)
            for info in pkgutil.walk_packages([pkg_dir], root + "."):
                names.append(info.name)
        for n in sorted(names, reverse=True):
            try:
                importlib.import_module(n)
            except Exception:
                pass


def main():
    modname, tier, seed, label, out = sys.argv[1:6]
    shards = json.load(sys.stdin)
    _prepare()
    from . import engine

    if "intmax-640-after-import" in os.environ.get("VERIF_ENV_PREPARE", ""):
        # an application that lowers the interpreter's integer-string limit (to its minimum) after the library was imported
        sys.set_int_max_str_digits(640)

    if "reentrant-logging" in os.environ.get("VERIF_ENV_PREPARE", ""):
        import mc

        mc.REENTRY["ref"] = mc.reentry_probe()  # (what the probe gives alone, before any other call)
        mc.REENTRY["on"] = True

    accs = []
    for n, shard in enumerate(shards):
        idx, acc = engine._worker((modname, n, engine._tuplify(shard), tier, int(seed)))
        accs.append(acc)
    with open(out, "wb") as f:
        pickle.dump(accs, f)


if __name__ == "__main__":
    main()
