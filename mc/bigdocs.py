"""Size-scaled realistic documents with constructive ground truth (the generator knows what it wrote).

Small alphabets decide the scanner's state machine; these families decide what depends on size, count, position
in a long sequence, line numbers beyond small integers, many definitions with keys of different lengths, and
values far apart that refer to each other.  Everything is deterministic in (n, variant).
"""

SIZES_QUICK = [1, 2, 3, 7, 26, 31, 64, 101, 130, 257, 300]
SIZES_THOROUGH = SIZES_QUICK + [513, 1025, 2049, 4100]

_TITLES = ["On {B}races and \"quotes\"", "A {Nested {Deep {Deeper}}} title", "Plain title", "Caf\\'e {\\\"u}ber", "x, y = z @ w", "100\\% \\& more"]
_STRKEYS = ["ab", "b", "jan", "pub", "s", "longstringkey", "z9"]


def document(n, variant=0):
    """-> (text, expected) where expected is the list of dialect block forms (see mc.dialect), for a document of
    n entries interleaved with @string definitions (keys of different lengths, alphabetical order != length order),
    @preamble, explicit and free-text comments; entry i sits on its own lines, so line numbers grow past 256."""
    parts = []
    exp = []

    def add(text, block=None):
        parts.append(text)
        if block is not None:
            exp.append(block)

    pending_comment = []

    def flush_comment():
        if pending_comment:
            exp.append(("implicit", "\n".join(pending_comment).strip()))
            pending_comment.clear()

    head = "%% bibliography generated for size %d variant %d" % (n, variant)
    add(head + "\n")
    pending_comment.append(head)
    for j, k in enumerate(_STRKEYS):
        flush_comment()
        v = '"String %s"' % k if j % 2 == 0 else "{String {%s}}" % k
        add("@string{%s = %s}\n" % (k, v), ("string", k, v))
    flush_comment()
    add('@preamble{"\\newcommand{\\noop}[1]{}"}\n\n', ("preamble", '"\\newcommand{\\noop}[1]{}"'))
    for i in range(n):
        if i % 5 == 2:
            line = "%% comment before entry %d" % i
            add(line + "\n")
            pending_comment.append(line)
        if i % 11 == 7:
            flush_comment()
            add("@comment{explicit %d {x}}\n" % i, ("comment", "explicit %d {x}" % i))
        flush_comment()
        key = "Key%d:%s" % (i, "xyz"[i % 3])
        typ = ["article", "Book", "inproceedings", "MISC"][i % 4]
        fields = [
            ("author", "{Author%d, A. and de la Other%d, B. C.}" % (i, i)),
            ("title", ('"%s %d"' if i % 2 else "{%s %d}") % (_TITLES[i % len(_TITLES)] if i % 2 == 0 or '"' not in _TITLES[i % len(_TITLES)] else "Plain", i)),
            ("Year" if i % 4 == 1 else "year", str(1900 + i % 120)),  # (field names come in any letter case)
            ("month", ["jan", "feb", "mar"][i % 3]),
            ("publisher", _STRKEYS[i % len(_STRKEYS)] if i % 3 else '%s # " and Sons"' % _STRKEYS[i % len(_STRKEYS)]),
        ]
        if variant == 1 and i % 7 == 3:
            fields.append(("note", "{multi\n  line\n  note %d}" % i))
        if i % 13 == 5:
            # RefTeX form: no comma, no fields
            add("@%s{%s}\n\n" % (typ, key), ("entry", typ.lower(), key, ()))
            continue
        trailing = i % 2 == 0
        body = ",\n".join("  %s = %s" % kv for kv in fields) + (",\n" if trailing else "\n")
        add("@%s{%s,\n%s}\n\n" % (typ, key, body), ("entry", typ.lower(), key, tuple(fields)))
    flush_comment()
    add("trailing free text\n")
    exp.append(("implicit", "trailing free text"))
    return "".join(parts), exp


def strip1(v):
    if len(v) >= 2 and ((v[0] == "{" and v[-1] == "}") or (v[0] == '"' and v[-1] == '"')):
        return v[1:-1]
    return v


def expected_after_default_stack(exp):
    """What the default parse stack (resolve bare string references, then remove one enclosing layer) makes of it."""
    strings = {}
    for b in exp:
        if b[0] == "string" and b[1] not in strings:
            strings[b[1]] = b[2]
    out = []
    for b in exp:
        if b[0] == "entry":
            fs = []
            for k, v in b[3]:
                if v in strings:
                    v = strings[v]
                fs.append((k, strip1(v)))
            out.append(("entry", b[1], b[2], tuple(fs)))
        elif b[0] == "string":
            out.append(("string", b[1], strip1(b[2])))
        else:
            out.append(b)
    return out
