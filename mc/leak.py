"""State left over between calls: a long-lived middleware instance must behave, on every library of a
sequence, exactly like a fresh instance (the properties quantify over libraries, not over 'first call
on a new object').  Sequences are run forwards and backwards so that each input is preceded by
different ones."""
from .canon import canon


def run(make, inputs, acc, label, case_of=None, also_process_wide=True):
    """make() -> fresh middleware; inputs: list of zero-argument factories of fresh libraries."""
    orders = [list(range(len(inputs))), list(range(len(inputs)))[::-1]]
    for oi, order in enumerate(orders):
        inst = make()
        for n, i in enumerate(order):
            acc.trace(2)
            acc.case(nontrivial_key=("leak", label, oi, n))
            try:
                a = canon(inst.transform(inputs[i]()))
            except Exception as e:
                a = ("raised", type(e).__name__)
            try:
                b = canon(make().transform(inputs[i]()))
            except Exception as e:
                b = ("raised", type(e).__name__)
            acc.step(("leak", label, i), "long-lived", hash(a))
            if a != b:
                acc.violation(
                    {"oracle": "reused_instance_equals_fresh", "middleware": label},
                    {
                        "case": {"leak": label, "order": "forward" if oi == 0 else "backward", "position": n, "input": case_of(i) if case_of else i},
                        "observed": repr(a)[:400],
                        "expected": repr(b)[:400],
                    },
                    size=n,
                )
                break
