"""State left over between calls, including calls that fail.

A long-lived middleware instance must behave, on every library of a sequence, exactly like a fresh instance (the
properties quantify over libraries, not over 'first call on a new object').  Sequences are run forwards and
backwards so that each input is preceded by different ones; `poison` inputs (data on which the call may well
raise: odd value types, corrupt metadata, unknown block classes) are interleaved, because cleanup that is
skipped on an error path only shows in the NEXT call.  `judge(snapshot, inp, out)` may add the property's own
oracle for the long-lived instance (e.g. copy mode still respected).

A third pass hands the instance the SAME library object twice with an in-place edit in between that keeps the number
of blocks (block order and the field order of every entry reversed): anything an instance remembers about an input
object (by identity, by weak reference, by length) is stale by then."""
from .canon import alias, canon, describe


def copy_judge(snap, lib, out):
    """The oracle of C07 for one call: input equal to its snapshot, nothing mutable shared with the output."""
    if canon(lib) != snap:
        return ("leaves_input_unchanged", "the input library changed")
    al = alias(lib, out)
    if al:
        return ("shares_nothing_with_input", [describe(o) for o in al[:3]])
    return None


def edit_in_place(lib):
    """Deterministic edit through the public API: same blocks, reversed; every entry's fields reversed."""
    blocks = list(lib.blocks)
    for b in blocks:
        lib.remove(b)
    for b in reversed(blocks):
        fs = getattr(b, "fields", None)
        if type(fs) is list and len(fs) > 1 and len({f.key for f in fs}) == len(fs):
            for f in list(fs):
                b.pop(f.key)
            for f in reversed(fs):
                b.set_field(f)
    lib.add(list(reversed(blocks)))


def _same_object_again(make, inputs, acc, label, case_of):
    inst = make()
    for i, mk in enumerate(inputs):
        acc.trace(4)
        acc.case(nontrivial_key=("leak-same-object", label, i))
        results = []
        for worker in (lambda: inst, make):
            lib = mk()
            try:
                worker().transform(lib)
            except Exception:
                pass
            try:
                edit_in_place(lib)
            except Exception:
                results.append(("edit failed",))
                continue
            try:
                results.append(canon(worker().transform(lib)))
            except Exception as e:
                results.append(("raised", type(e).__name__))
        a, b = results
        acc.step(("leak-same", label, i), "long-lived", hash(a))
        if a != b:
            acc.violation(
                {"oracle": "reused_instance_equals_fresh", "middleware": label, "how": "same library object again, edited in between"},
                {"case": {"leak": label, "order": "same object twice", "input": case_of(i) if case_of else i}, "observed": repr(a)[:400], "expected": repr(b)[:400]},
                size=i,
            )
            break


def scramble(out):
    """The caller does what it likes with a result: every list and dict reachable from it is edited in place (lists
    reversed and extended, dicts given one more key).  Nothing of that may reach back into the middleware."""
    from .canon import reachable

    for o in list(reachable(out).values()):
        try:
            if type(o) is list:
                o.reverse()
                o.append("scrambled by the caller")
            elif type(o) is dict:
                o["scrambled by the caller"] = ["x"]
        except Exception:
            pass


def _caller_scrambles_results(make, inputs, acc, label, case_of):
    inst = make()
    for i, mk in enumerate(inputs):
        acc.trace(3)
        acc.case(nontrivial_key=("leak-scrambled", label, i))
        try:
            a = canon(inst.transform(mk()))
        except Exception as e:
            a = ("raised", type(e).__name__)
        try:
            b = canon(make().transform(mk()))
        except Exception as e:
            b = ("raised", type(e).__name__)
        if a != b:
            acc.violation(
                {"oracle": "reused_instance_equals_fresh", "middleware": label, "how": "the caller edited every list and dict of the earlier results"},
                {"case": {"leak": label, "order": "results scrambled", "input": case_of(i) if case_of else i}, "observed": repr(a)[:400], "expected": repr(b)[:400]},
                size=i,
            )
            break
        try:
            scramble(inst.transform(mk()))
        except Exception:
            pass


def run(make, inputs, acc, label, case_of=None, poison=(), judge=None):
    """make() -> fresh middleware; inputs / poison: lists of zero-argument factories of fresh libraries."""
    n = len(inputs)
    _same_object_again(make, inputs, acc, label, case_of)
    _caller_scrambles_results(make, inputs, acc, label, case_of)
    orders = [list(range(n)), list(range(n))[::-1]]
    for oi, order in enumerate(orders):
        inst = make()
        seq = []
        for k, i in enumerate(order):
            seq.append(("in", i))
            if poison:
                seq.append(("poison", (k + oi) % len(poison)))
        for pos, (kind, i) in enumerate(seq):
            mk = inputs[i] if kind == "in" else poison[i]
            acc.trace(2)
            acc.case(nontrivial_key=("leak", label, oi, pos))
            lib = mk()
            snap = canon(lib) if judge is not None else None
            try:
                out = inst.transform(lib)
                a = canon(out)
            except Exception as e:
                out = None
                a = ("raised", type(e).__name__)
            if kind == "poison":
                continue  # whatever happens on hostile data; what matters is the calls after it
            try:
                b = canon(make().transform(mk()))
            except Exception as e:
                b = ("raised", type(e).__name__)
            acc.step(("leak", label, i), "long-lived", hash(a))
            case = {"leak": label, "order": "forward" if oi == 0 else "backward", "position": pos, "input": case_of(i) if case_of else i, "after_failing_calls": bool(poison)}
            if a != b:
                acc.violation(
                    {"oracle": "reused_instance_equals_fresh", "middleware": label},
                    {"case": case, "observed": repr(a)[:400], "expected": repr(b)[:400]},
                    size=pos,
                )
                break
            if judge is not None and out is not None:
                bad = judge(snap, lib, out)
                if bad:
                    acc.violation(
                        {"oracle": "reused_instance_" + bad[0], "middleware": label},
                        {"case": case, "observed": bad[1], "expected": "as for a fresh instance"},
                        size=pos,
                    )
                    break
