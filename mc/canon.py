"""Canonical forms (declared content, never id()) and the alias walker (DESIGN 3.3)."""
import dataclasses

from bibtexparser.library import Library
from bibtexparser.model import Block, Field

_ATOMS = (str, int, float, bool, bytes, type(None))


def canon(x, _path=None):
    """Nested hashable tuple describing x structurally.  Types are part of the form
    (1, '1', True differ); dict/set order is not; exceptions compare by class and content."""
    if isinstance(x, _ATOMS):
        return (type(x).__name__, x)
    if _path is None:
        _path = set()
    i = id(x)
    if i in _path:
        return ("<cycle>", type(x).__name__)
    _path.add(i)
    try:
        if isinstance(x, (list, tuple)):
            return (type(x).__name__, tuple(canon(e, _path) for e in x))
        if isinstance(x, dict):
            try:
                if all(type(k) is str for k in x):
                    return (type(x).__name__, tuple((("str", k), canon(x[k], _path)) for k in sorted(x)))
            except TypeError:
                pass
            items = [(canon(k, _path), canon(v, _path)) for k, v in x.items()]
            return (type(x).__name__, tuple(sorted(items, key=repr)))
        if isinstance(x, (set, frozenset)):
            return (type(x).__name__, tuple(sorted((canon(e, _path) for e in x), key=repr)))
        if isinstance(x, BaseException):
            d = getattr(x, "__dict__", {})
            return (
                "exc",
                type(x).__name__,
                tuple(canon(a, _path) for a in x.args),
                tuple((k, canon(d[k], _path)) for k in sorted(d)),
                # (error objects are shared between copies: what a copy does to one - clearing its traceback, say - it does
                #  to the input's; whether a traceback is attached is part of the state)
                ("has_traceback", x.__traceback__ is not None),
            )
        if isinstance(x, Library):
            blocks = x.blocks
            pos = {id(b): n for n, b in enumerate(blocks)}
            ed = tuple(sorted(((canon(k, _path), pos.get(id(v), -1)) for k, v in x._entries_by_key.items()), key=repr))
            sd = tuple(sorted(((canon(k, _path), pos.get(id(v), -1)) for k, v in x._strings_by_key.items()), key=repr))
            other = tuple(
                (k, canon(v, _path)) for k, v in sorted(vars(x).items()) if k not in ("_blocks", "_entries_by_key", "_strings_by_key")
            )
            return (type(x).__name__, tuple(canon(b, _path) for b in blocks), ed, sd, other)
        if isinstance(x, type):
            return ("type", x.__module__, x.__qualname__)
        d = getattr(x, "__dict__", None)
        if d is not None:
            return (type(x).__name__, tuple((k, canon(d[k], _path)) for k in sorted(d)))
        return ("repr", type(x).__name__, repr(x))
    finally:
        _path.discard(i)


def content(b):
    """Projection for 'same types, keys, field order and values': drops start lines, raw, metadata."""
    from bibtexparser.model import (
        Entry,
        ExplicitComment,
        ImplicitComment,
        ParsingFailedBlock,
        Preamble,
        String,
    )

    if isinstance(b, Library):
        return tuple(content(x) for x in b.blocks)
    if isinstance(b, Entry):
        return ("Entry", b.entry_type, b.key, tuple((f.key, canon(f.value)) for f in b.fields))
    if isinstance(b, String):
        return ("String", b.key, canon(b.value))
    if isinstance(b, Preamble):
        return ("Preamble", canon(b.value))
    if isinstance(b, ExplicitComment):
        return ("ExplicitComment", b.comment)
    if isinstance(b, ImplicitComment):
        return ("ImplicitComment", b.comment)
    if isinstance(b, ParsingFailedBlock):
        inner = b.ignore_error_block
        return (type(b).__name__, b.raw, content(inner) if inner is not None else None)
    return ("?", type(b).__name__)


_IMMUTABLE = (str, int, float, bool, bytes, type(None), type, BaseException)


def _reach(x, out, seen):
    """Collect ids of mutable objects reachable from x."""
    if isinstance(x, BaseException):
        # error objects are shared between copies by design ("used as immutables"): not aliasing themselves, but
        # transparent - a block or list carried BY an error object is shared state like any other
        if id(x) in seen:
            return
        seen.add(id(x))
        for v in list(getattr(x, "__dict__", {}).values()) + list(getattr(x, "args", ())):
            _reach(v, out, seen)
        return
    if isinstance(x, _IMMUTABLE):
        return
    i = id(x)
    if i in seen:
        return
    seen.add(i)
    if isinstance(x, tuple):
        for e in x:
            _reach(e, out, seen)
        return
    if isinstance(x, frozenset):
        return
    out[i] = x
    if isinstance(x, (list, set)):
        for e in x:
            _reach(e, out, seen)
    elif isinstance(x, dict):
        for k, v in x.items():
            _reach(k, out, seen)
            _reach(v, out, seen)
    else:
        d = getattr(x, "__dict__", None)
        if d is not None:
            for v in d.values():
                _reach(v, out, seen)
        elif dataclasses.is_dataclass(x):
            for f in dataclasses.fields(x):
                _reach(getattr(x, f.name), out, seen)


def reachable(x):
    out = {}
    _reach(x, out, set())
    return out


def alias(a, b):
    """Mutable objects (blocks, fields, lists, dicts, sets, NameParts, ...) reachable from both."""
    ra = reachable(a)
    rb = reachable(b)
    return [ra[i] for i in ra if i in rb]


def describe(o):
    r = repr(o)
    return f"{type(o).__name__}:{r[:80]}"
