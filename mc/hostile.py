"""Hostile data: libraries on which a middleware or the writer may well raise (odd value types, non-string keys,
corrupt metadata, unknown block classes).  What a call does on them is mostly unspecified; they exist to put
the code on its error paths, after which everything else must still work."""
import fractions
import decimal

from bibtexparser.library import Library
from bibtexparser.model import Block, Entry, Field, ParsingFailedBlock, String


class UnknownBlock(Block):
    """A user-defined block class the library does not know."""

    def __init__(self):
        super().__init__(0, "@unknown{}")


class ExplodingKey:
    def __str__(self):
        raise RuntimeError("key cannot be shown")

    def lower(self):
        raise RuntimeError("key cannot be lower-cased")


ODD_VALUES = [7, None, (), ("jun", "jul"), (6, 7), ["a", 1], 3.0, float("nan"), fractions.Fraction(3), decimal.Decimal(3), complex(3, 0), b"jan", {"a": 1}, frozenset({"x"}), object]


def libraries():
    """Zero-argument factories of hostile libraries."""
    out = []
    for v in ODD_VALUES:
        out.append(lambda v=v: Library([Entry("article", "h", [Field("title", "ok"), Field("month", v), Field("author", v), Field("year", v)]), String("hs", v)]))
    out.append(lambda: Library([Entry("article", "h", [Field(2020, "x"), Field("title", "{T}")])]))
    # the bad field last / in the middle: the call fails after part of the entry was already processed
    out.append(lambda: Library([Entry("article", "h", [Field("title", "{T}"), Field("a", "1"), Field(2020, "x")])]))
    out.append(lambda: Library([Entry("article", "ok", [Field("b", "{1}")]), Entry("article", "h", [Field("A", "1"), Field(None, "x"), Field("a", "2")]), Entry("article", "ok2", [Field("c", "{2}")])]))
    out.append(lambda: Library([Entry("article", "h", [Field(None, "x"), Field("b", "y"), Field("B", "z")])]))
    out.append(lambda: Library([Entry("article", "h", [Field("a", "{x}")]), UnknownBlock()]))
    out.append(lambda: Library([ParsingFailedBlock(error=Exception("e"), raw=None), Entry("article", "h2", [Field("a", "{x}")])]))

    def corrupt():
        e = Entry("article", "h", [Field("f", "x"), Field("year", "1999")])
        e.parser_metadata["removed_enclosing"] = {"f": "<", "year": 5}
        s = String("hs", "v")
        s.parser_metadata["removed_enclosing"] = "<"
        return Library([e, s])

    out.append(corrupt)

    def odd_keys():
        e1 = Entry("article", None, [Field("a", "1")])
        e2 = Entry("article", "k", [Field("a", "1")])
        s = String("k", "v")
        return Library([e2, s, e1])

    out.append(odd_keys)
    out.append(lambda: Library([Entry("article", "h", [Field("author", ["A, B, C, D", 5, None]), Field("editor", "unsplit string")])]))
    return out
