"""Instances of user subclasses of the built-in value types (a str that is not exactly str, an int that is not exactly
int, ...): whatever holds for a plain value holds for these (Liskov), and the unchanged tree treats them alike.  Used
wherever a check ranges over values handed in by a caller rather than produced by the splitter."""
import enum


class S(str):
    """A str subclass with nothing overridden (think: a string type carrying a source position)."""

    __slots__ = ()


class I(int):
    __slots__ = ()


class L(list):
    pass


class T(tuple):
    __slots__ = ()


class Num(enum.IntEnum):
    ONE = 1
    TWO = 2
    THREE = 3
    FOUR = 4
    FIVE = 5
    SIX = 6
    SEVEN = 7
    EIGHT = 8
    NINE = 9
    TEN = 10
    ELEVEN = 11
    TWELVE = 12
    THIRTEEN = 13
    ZERO = 0


class SE(str, enum.Enum):
    """Members are strings whose str(), format() and repr() are NOT their text (Python 3.12: str(SE.MAR) == 'SE.MAR'):
    code that needs the text must use the value as the str it is, not convert it."""

    MAR = "Mar"
    JAN = "jan"
    THREE = "3"
    TITLE = "title"
    AUTHORS = "Ada Lovelace and Alan Turing"
    YEAR = "year"


class WithIndex:
    """Not an int, not a str - but usable as an index (operator.index) and convertible (int())."""

    def __init__(self, n, fail=False):
        self.n, self.fail = n, fail

    def __index__(self):
        if self.fail:
            raise ValueError("no index today")
        return self.n

    __int__ = __index__

    def __eq__(self, other):
        return isinstance(other, WithIndex) and (self.n, self.fail) == (other.n, other.fail)

    def __hash__(self):
        return hash((self.n, self.fail))

    def __repr__(self):
        return f"WithIndex({self.n}, fail={self.fail})"


class Anything:
    """Compares equal to everything (a test wildcard like unittest.mock.ANY)."""

    def __eq__(self, other):
        return True

    def __ne__(self, other):
        return False

    __hash__ = None


def mapping_entry_class():
    """A user's Entry subclass that also behaves like a mapping of its fields (sized, iterable over its field keys, falsy
    when it has no fields - a virtual collections.abc.Collection): still ONE block, an entry for every clause."""
    from bibtexparser.model import Entry

    class MappingEntry(Entry):
        def __len__(self):
            return len(self.fields)

        def __iter__(self):
            return iter([f.key for f in self.fields])

        def __contains__(self, k):
            return k in self.fields_dict

    return MappingEntry
