"""Instances of user subclasses of the built-in value types (a str that is not exactly str, an int that is not exactly
int, ...): whatever holds for a plain value holds for these (Liskov), and the unchanged tree treats them alike.  Used
wherever a check ranges over values handed in by a caller rather than produced by the splitter."""
import enum


class S(str):
    """A str subclass with nothing overridden (think: a string type carrying a source position)."""

    __slots__ = ()


class I(int):
    __slots__ = ()


class L(list):
    pass


class T(tuple):
    __slots__ = ()


class Num(enum.IntEnum):
    ONE = 1
    TWO = 2
    THREE = 3
    FOUR = 4
    FIVE = 5
    SIX = 6
    SEVEN = 7
    EIGHT = 8
    NINE = 9
    TEN = 10
    ELEVEN = 11
    TWELVE = 12
    THIRTEEN = 13
    ZERO = 0
